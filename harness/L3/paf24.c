/* C01/C05/C06/C07 for PAF 24-bit (src/paf.c): the real paf24_init, paf24_seek,
 * paf24_read_{s,i,f,d}, paf24_write_{s,i,f,d}, paf24_read_block,
 * paf24_write_block and paf24_close over E-memfile. A PAF24 block holds 10
 * frames; per channel 32 bytes (10 x 3 bytes + 2 pad), stored as eight
 * 32-bit words in the file's byte order.
 *   SEL_READ   file of NB blocks with symbolic bytes; optional seek to a
 *              symbolic frame S, then one read of L <= LM items (staged
 *              through the BUF_UNION buffer, hook SF_BUFFER_LEN = 32 bytes,
 *              so a request spans up to two staging chunks and two blocks):
 *              item j is sample (S + j / CH, j % CH) of the file - the
 *              24-bit word at its block position, MSB-aligned, converted
 *              for the caller's type; count and position rules.
 *   SEL_WRITE  W frames already staged (grid), one write of L items, then
 *              paf24_close: the file holds, at every written frame's block
 *              position, the 24-bit word of the converted sample; the call
 *              returns L - so any split of a write sequence produces the
 *              same bytes.
 */
#include "verif.h"
#include <stdlib.h>
#include <string.h>
#include "paf.c"
#include "memfile.h"

#ifndef LM
#define LM 12
#endif
#ifndef CH
#define CH 1
#endif
#ifndef NB
#define NB 3
#endif
#ifndef BIGEND
#define BIGEND 0
#endif

#if defined (API_s)
#define API_T short
#define API_ND short
#define READ_FN paf24_read_s
#define WRITE_FN paf24_write_s
#define R_EXPECT(v)	((short) ((v) >> 16))
#define W_EXPECT(x)	((int) ((unsigned) (int) (x) << 16))
#elif defined (API_i)
#define API_T int
#define API_ND int
#define READ_FN paf24_read_i
#define WRITE_FN paf24_write_i
#define R_EXPECT(v)	(v)
#define W_EXPECT(x)	(x)
#elif defined (API_f)
#define API_T float
#define API_ND float
#define READ_FN paf24_read_f
#define WRITE_FN paf24_write_f
#define R_EXPECT(v)	((float) ((nd_norm == SF_TRUE ? (float) (1.0 / 0x80000000) : (float) (1.0 / 0x100)) * (v)))
/* documented rule: normalised [-1, 1] <-> full scale; not normalised: the value IS the 24-bit sample (MSB-aligned: x 256) */
#define W_EXPECT(x)	((int) lrintf ((nd_norm == SF_TRUE ? (float) (1.0 * 0x7FFFFFFF) : (float) 256.0) * (x)))
#elif defined (API_d)
#define API_T double
#define API_ND double
#define READ_FN paf24_read_d
#define WRITE_FN paf24_write_d
#define R_EXPECT(v)	((double) ((nd_norm == SF_TRUE ? (1.0 / 0x80000000) : (1.0 / 0x100)) * (v)))
#define W_EXPECT(x)	((int) lrint ((nd_norm == SF_TRUE ? (1.0 * 0x7FFFFFFF) : 256.0) * (x)))
#else
#error "API"
#endif
#ifndef W0
#define W0 0
#endif

static SF_PRIVATE g_psf ;

/* position, inside a channel's 32-byte area, of byte p of the packed little-endian 24-bit stream */
static int bytepos (int p)	{ return BIGEND ? 4 * (p / 4) + 3 - (p % 4) : p ; }

/* the 32-bit MSB-aligned value of frame f, channel c, from the file image */
static int
file_sample (int f, int c)
{	int b = f / 10, n = f % 10, base = b * 32 * CH + 32 * c ;
	unsigned lo = mf [0].data [base + bytepos (3 * n)], mid = mf [0].data [base + bytepos (3 * n + 1)], hi = mf [0].data [base + bytepos (3 * n + 2)] ;
	return (int) ((lo << 8) | (mid << 16) | (hi << 24)) ;
}

int
main (void)
{	SF_PRIVATE *psf = &g_psf ;
	PAF24_PRIVATE *pp ;
	int nd_len = nondet_int (), nd_norm = nondet_int () ;
	sf_count_t ret ;
	int j ;

	{	static const SF_PRIVATE zero_psf ;
		*psf = zero_psf ;
	}
	psf->file.filedes = 0 ;
	psf->sf.channels = CH ; psf->sf.samplerate = 8000 ; psf->sf.format = SF_FORMAT_PAF | SF_FORMAT_PCM_24 ;
	psf->endian = BIGEND ? SF_ENDIAN_BIG : SF_ENDIAN_LITTLE ;
	psf->dataoffset = 0 ;
	VASSUME (nd_norm == SF_TRUE || nd_norm == SF_FALSE) ;
	psf->norm_float = nd_norm ; psf->norm_double = nd_norm ;
	VASSUME (nd_len >= 0 && nd_len <= LM && nd_len % CH == 0) ;

#if defined (SEL_READ)
	{	unsigned char nd_file [NB * 32 * CH] ;
		API_T out [LM + 2] ;
		int nd_seek = nondet_int (), start = 0 ;
		ND_FILL (nd_file, NB * 32 * CH, uchar) ;
		for (j = 0 ; j < NB * 32 * CH ; j++) mf [0].data [j] = nd_file [j] ;
		mf [0].len = NB * 32 * CH ; mf [0].len_min = NB * 32 * CH ; mf [0].pos = 0 ;
		psf->file.mode = SFM_READ ;
		VASSERT (paf24_init (psf) == 0, "paf24_init succeeds") ;
		pp = psf->codec_data ;
		VASSERT (psf->sf.frames == 10 * NB, "frame count = 10 frames per block") ;
#ifdef WITH_SEEK
		/* (known finding paf24lastblk: a seek into the LAST block leaves the reader past the end - excluded here) */
		VASSUME (nd_seek >= 0 && nd_seek < 10 * (NB - 1)) ;
#ifdef SEEK_FIXED
		nd_seek = SEEK_FIXED ;
#endif
		VASSERT (paf24_seek (psf, SFM_READ, nd_seek) == nd_seek, "seek returns the requested frame") ;
		start = nd_seek ;
#else
		/* the read wrappers (sf_read_*) issue psf->seek (SFM_READ, read_current) before the first codec read
		** (paf24_init leaves last_op = 0 for exactly this reason): the first block is decoded by that seek */
		VASSERT (paf24_seek (psf, SFM_READ, 0) == 0, "seek to the start") ;
#endif
		VASSUME (start + nd_len / CH <= 10 * (NB - 1)) ;	/* the request ends before the last block (see above) */
		for (j = 0 ; j < LM + 2 ; j++) out [j] = 0 ;
		ret = READ_FN (psf, out, nd_len) ;
		VASSERT (ret == nd_len, "inside the file every item asked for is delivered") ;
		for (j = 0 ; j < LM ; j++)
			if (j < nd_len)
			{	int v = file_sample (start + j / CH, j % CH) ;
				VASSERT (out [j] == R_EXPECT (v), "item j is the file's 24-bit sample of frame (position + j / channels), channel j % channels") ;
				} ;
		VASSERT (out [nd_len] == 0 && out [nd_len + 1] == 0, "nothing is stored beyond the requested count") ;
	}
#elif defined (SEL_WRITE)
	{	API_T nd_in [LM] ;
		int expect [LM] ;
		ND_FILL (nd_in, LM, API_ND) ;
#ifdef CONCRETE_VALUES
		for (j = 0 ; j < LM ; j++) nd_in [j] = (API_T) (nd_norm ? 0.0625 * (j + 1) - 0.5 : 1000.25 * (j + 1)) ;
#endif
		mf [0].len = 0 ; mf [0].pos = 0 ;
		psf->file.mode = SFM_WRITE ;
		VASSERT (paf24_init (psf) == 0, "paf24_init succeeds") ;
		pp = psf->codec_data ;
		/* W frames of the current block already staged by earlier calls */
		pp->write_count = W0 ;
		for (j = 0 ; j < LM ; j++) expect [j] = W_EXPECT (nd_in [j]) ;
		ret = WRITE_FN (psf, nd_in, nd_len) ;
		VASSERT (ret == nd_len, "every item offered is accepted") ;
		VASSERT (pp->write_block * 10 + pp->write_count == W0 + nd_len / CH, "write position advances by the frames written") ;
		paf24_close (psf) ;
		for (j = 0 ; j < LM ; j++)
			if (j < nd_len)
			{	int f = W0 + j / CH ;
				VASSERT ((file_sample (f, j % CH) >> 8) == (expect [j] >> 8), "the file holds the 24-bit word of item j at frame (W + j / channels), channel j % channels") ;
				} ;
	}
#else
#error "select"
#endif
	WITNESS_END () ;
	return 0 ;
}
