#!/bin/bash
# runs every registered check (tier $1, default quick) on the current /repo tree, sequentially, and prints a summary
TIER=${1:-quick}
cd /verif
for p in $(python3 -c "import json;print(' '.join(c['property_id'] for c in json.load(open('MANIFEST.json'))['checks']))"); do
  s=$(date +%s)
  python3 run_check.py $p --tier $TIER > /var/tmp/runall_$p.log 2>&1; rc=$?
  e=$(date +%s)
  echo "$p rc=$rc $((e-s))s $(tail -1 /var/tmp/runall_$p.log | cut -c1-160)"
done
