/* C10 H4 + C09 H2: format enumeration tables (src/command.c), SFC_GET_FORMAT_INFO,
 * sf_format_check on every simple format, "every major has a usable subtype",
 * and the error-message table (src/sndfile.c). Symbolic: table indices
 * (including out-of-range), error numbers.
 */
#include "verif.h"
#include <string.h>
#include "sndfile.c"
#include "command.c"

#define N_SIMPLE	((int) (sizeof (simple_formats) / sizeof (SF_FORMAT_INFO)))
#define N_MAJOR		((int) (sizeof (major_formats) / sizeof (SF_FORMAT_INFO)))
#define N_SUB		((int) (sizeof (subtype_formats) / sizeof (SF_FORMAT_INFO)))

int
main (void)
{
#if defined (SEL_INDEX)
	int nd_i = nondet_int () ;
	int nd_j = nondet_int () ;
	SF_FORMAT_INFO a, b ;
	int ra, rb, cnt ;

	/* --- simple */
	a.format = nd_i ; b.format = nd_j ; a.name = b.name = NULL ;
	ra = sf_command (NULL, SFC_GET_SIMPLE_FORMAT, &a, sizeof (a)) ;
	rb = sf_command (NULL, SFC_GET_SIMPLE_FORMAT, &b, sizeof (b)) ;
	sf_command (NULL, SFC_GET_SIMPLE_FORMAT_COUNT, &cnt, sizeof (cnt)) ;
	VASSERT (cnt == N_SIMPLE && cnt > 0, "simple count is the table size") ;
	if (nd_i >= 0 && nd_i < cnt)
	{	SF_INFO info ;
		VASSERT (ra == 0 && a.name != NULL && a.name [0] != 0 && a.extension != NULL && a.extension [0] != 0, "simple entry has name and extension") ;
		memset (&info, 0, sizeof (info)) ;
		info.format = a.format ; info.channels = 1 ; info.samplerate = 44100 ;
		VASSERT (sf_format_check (&info) == 1, "every simple format passes sf_format_check") ;
		if (nd_j >= 0 && nd_j < cnt && nd_i != nd_j)
			VASSERT (rb == 0 && a.format != b.format, "simple entries are distinct") ;
		}
	else
		VASSERT (ra != 0, "out-of-range simple index is refused") ;

	/* --- major */
	a.format = nd_i ; b.format = nd_j ; a.name = b.name = NULL ;
	ra = sf_command (NULL, SFC_GET_FORMAT_MAJOR, &a, sizeof (a)) ;
	rb = sf_command (NULL, SFC_GET_FORMAT_MAJOR, &b, sizeof (b)) ;
	sf_command (NULL, SFC_GET_FORMAT_MAJOR_COUNT, &cnt, sizeof (cnt)) ;
	VASSERT (cnt == N_MAJOR && cnt > 0, "major count is the table size") ;
	if (nd_i >= 0 && nd_i < cnt)
	{	SF_FORMAT_INFO q ;
		VASSERT (ra == 0 && a.name != NULL && a.name [0] != 0 && a.extension != NULL && a.extension [0] != 0, "major entry has name and extension") ;
		VASSERT ((a.format & SF_FORMAT_TYPEMASK) == a.format && a.format != 0, "major entry is a pure container code") ;
		q.format = a.format ;
		VASSERT (sf_command (NULL, SFC_GET_FORMAT_INFO, &q, sizeof (q)) == 0 && q.format == a.format && q.name == a.name, "SFC_GET_FORMAT_INFO finds every enumerated major format") ;
		if (nd_j >= 0 && nd_j < cnt && nd_i != nd_j)
			VASSERT (rb == 0 && a.format != b.format, "major entries are distinct") ;
		}
	else
		VASSERT (ra != 0, "out-of-range major index is refused") ;

	/* --- subtype */
	a.format = nd_i ; b.format = nd_j ; a.name = b.name = NULL ;
	ra = sf_command (NULL, SFC_GET_FORMAT_SUBTYPE, &a, sizeof (a)) ;
	rb = sf_command (NULL, SFC_GET_FORMAT_SUBTYPE, &b, sizeof (b)) ;
	sf_command (NULL, SFC_GET_FORMAT_SUBTYPE_COUNT, &cnt, sizeof (cnt)) ;
	VASSERT (cnt == N_SUB && cnt > 0, "subtype count is the table size") ;
	if (nd_i >= 0 && nd_i < cnt)
	{	SF_FORMAT_INFO q ;
		VASSERT (ra == 0 && a.name != NULL && a.name [0] != 0, "subtype entry has a name") ;
		VASSERT ((a.format & SF_FORMAT_SUBMASK) == a.format && a.format != 0, "subtype entry is a pure codec code") ;
		q.format = a.format ;
		VASSERT (sf_command (NULL, SFC_GET_FORMAT_INFO, &q, sizeof (q)) == 0 && q.format == a.format && q.name == a.name, "SFC_GET_FORMAT_INFO finds every enumerated subtype") ;
		if (nd_j >= 0 && nd_j < cnt && nd_i != nd_j)
			VASSERT (rb == 0 && a.format != b.format, "subtype entries are distinct") ;
		}
	else
		VASSERT (ra != 0, "out-of-range subtype index is refused") ;
#elif defined (SEL_USABLE)
	/* every major format has at least one subtype/endian/channel count that sf_format_check accepts */
	int nd_m = nondet_int () ;
	int s, found = 0 ;
	SF_INFO info ;
	VASSUME (nd_m >= 0 && nd_m < N_MAJOR) ;
	memset (&info, 0, sizeof (info)) ;
	info.samplerate = 8000 ;
	for (s = 0 ; s < N_SUB ; s++)
	{	info.format = major_formats [nd_m].format | subtype_formats [s].format ;
		info.channels = 1 ;
		if (sf_format_check (&info)) found = 1 ;
		info.channels = 2 ;
		if (sf_format_check (&info)) found = 1 ;
		} ;
	VASSERT (found, "every enumerated major format has a usable subtype") ;
#elif defined (SEL_CHECKDOM)
	/* sf_format_check: total, 0/1 valued, rejects out-of-domain channel counts and rates for every format word */
	SF_INFO info ;
	int nd_fmt = nondet_int () ;
	int nd_ch = nondet_int () ;
	int nd_sr = nondet_int () ;
	int r ;
	memset (&info, 0, sizeof (info)) ;
	info.format = nd_fmt ; info.channels = nd_ch ; info.samplerate = nd_sr ;
	r = sf_format_check (&info) ;
	VASSERT (r == 0 || r == 1, "sf_format_check is boolean") ;
	if (nd_ch < 1 || nd_ch > SF_MAX_CHANNELS || nd_sr < 0)
		VASSERT (r == 0, "channel count outside 1..1024 or negative rate is always rejected") ;
	if (r == 1)
		VASSERT ((nd_fmt & SF_FORMAT_TYPEMASK) != 0 && (nd_fmt & SF_FORMAT_SUBMASK) != 0, "accepted format names a container and an encoding") ;
#elif defined (SEL_ERRTAB)
	int nd_err = nondet_int () ;
	const char *s ;
	int k, listed = 0 ;
	VASSUME (nd_err >= 0 && nd_err <= SFE_MAX_ERROR) ;
	s = sf_error_number (nd_err) ;
	VASSERT (s != NULL && s [0] != 0, "every error number has a non-empty message") ;
	for (k = 0 ; SndfileErrors [k].str ; k++)
		if (SndfileErrors [k].error == nd_err && SndfileErrors [k].str == s)
			listed = 1 ;
	VASSERT (listed || nd_err == SFE_MAX_ERROR, "the message comes from the table entry of that number (not the 'no error defined' fallback)") ;
	{	static SF_PRIVATE psf ;
		char buf [8] ;
		int r ;
		psf.Magick = SNDFILE_MAGICK ;
		psf.virtual_io = SF_TRUE ;
		psf.error = nd_err ;
		VASSERT (sf_error ((SNDFILE *) &psf) == nd_err, "sf_error reports the recorded code") ;
		if (nd_err != SFE_SYSTEM)
			VASSERT (sf_strerror ((SNDFILE *) &psf) == s, "sf_strerror gives the table text") ;
		buf [7] = 0x55 ;
		r = sf_error_str ((SNDFILE *) &psf, buf, 7) ;
		VASSERT (r == 0 && buf [7] == 0x55, "sf_error_str stays inside maxlen") ;
		{	int z = 0, i ;
			for (i = 0 ; i < 7 ; i++) if (buf [i] == 0) z = 1 ;
			VASSERT (z, "sf_error_str NUL-terminates inside maxlen") ;
		}
	}
#else
#error "select"
#endif
	WITNESS_END () ;
	return 0 ;
}
