/* Reference G.711 (ITU-T G.711 tables 1a/1b and 2a/2b), written on
 * sign + magnitude as the Recommendation defines it. Independent of the
 * library's lookup tables. */
#ifndef REF_G711_H
#define REF_G711_H

/* mu-law expand: 8-bit code -> 16-bit linear (14-bit value << 2). */
static inline int
ref_ulaw_expand (unsigned char u)
{	int t ;
	u = (unsigned char) ~u ;
	t = ((u & 0x0F) << 3) + 0x84 ;
	t <<= (u & 0x70) >> 4 ;
	return (u & 0x80) ? (0x84 - t) : (t - 0x84) ;
}

/* mu-law compress of a 13-bit magnitude (0..8192, 16-bit magnitude / 4). */
static inline unsigned char
ref_ulaw_compress_mag (int mag, int negative)
{	int v, seg, q ;
	unsigned char u ;
	if (mag > 8158) mag = 8158 ;
	v = mag + 33 ;
	/* segment = position of the leading one above bit 5 */
	if (v < 64) seg = 0 ; else if (v < 128) seg = 1 ; else if (v < 256) seg = 2 ;
	else if (v < 512) seg = 3 ; else if (v < 1024) seg = 4 ; else if (v < 2048) seg = 5 ;
	else if (v < 4096) seg = 6 ; else seg = 7 ;
	q = (v >> (seg + 1)) & 0x0F ;
	u = (unsigned char) ((seg << 4) | q) ;
	u = (unsigned char) (~u & 0x7F) ;
	if (! negative) u |= 0x80 ;
	return u ;
}

/* A-law expand: 8-bit code -> 16-bit linear (13-bit value << 3). */
static inline int
ref_alaw_expand (unsigned char a)
{	int t, seg ;
	a ^= 0x55 ;
	t = (a & 0x0F) << 4 ;
	seg = (a & 0x70) >> 4 ;
	if (seg == 0) t += 8 ;
	else { t += 0x108 ; t <<= seg - 1 ; }
	return (a & 0x80) ? t : -t ;
}

/* A-law compress of a 12-bit magnitude (0..2048, 16-bit magnitude / 16). */
static inline unsigned char
ref_alaw_compress_mag (int mag, int negative)
{	int seg, q ;
	unsigned char a ;
	if (mag > 2047) mag = 2047 ;
	if (mag < 16) seg = 0 ; else if (mag < 32) seg = 1 ; else if (mag < 64) seg = 2 ;
	else if (mag < 128) seg = 3 ; else if (mag < 256) seg = 4 ; else if (mag < 512) seg = 5 ;
	else if (mag < 1024) seg = 6 ; else seg = 7 ;
	q = (seg < 2) ? (mag & 0x0F) : ((mag >> (seg - 1)) & 0x0F) ;
	a = (unsigned char) ((seg << 4) | q) ;
	a ^= 0x55 ;
	if (! negative) a |= 0x80 ;
	return a ;
}
#endif
