from vf import H

def ima_harnesses(sels=("SEL_SEEKREAD", "SEL_WRITE")):
    out = []
    for layout, lname in ((0, "wav"), (1, "aiff")):
        for ch in (1, 2):
            for sel in sels:
                spb, bs = (9, 8 * ch) if layout == 0 else (8, 6)
                d = {sel: 1, "LAYOUT": layout, "CH": ch, "SPB": spb, "BS": bs, "MF_CAP": 8, "MF_MAXIO": 8, "MF_NFILES": 2, "MF_ABSTRACT": 1, "MEMCPY_MAX": (2 * spb + 4) * ch * 2}
                big = 3 * spb * ch + 4
                out.append(H("blk.ima_%s.ch%d.%s" % (lname, ch, sel[4:].lower()), "L3/blk_ima.c", link=["common"], stubs=["psf_log_printf", "psf_memset"], defines=d,
                             unwind=8, unwindset=["main.%d:%d" % (i, big) for i in range(12)] + ["stub_decode.0:%d" % (spb * ch + 1), "stub_decode.1:%d" % (spb * ch + 1),
                                                  "stub_encode.0:%d" % (spb * ch + 1), "stub_encode.1:%d" % (spb * ch + 1), "ima_read_block.0:5", "ima_write_block.0:5",
                                                  "ima_read_s.0:3", "ima_write_s.0:3", "psf_memset.0:65", "memcpy.0:%d" % ((2 * spb + 4) * ch * 2 + 1), "memset.0:%d" % ((2 * spb + 4) * ch * 2 + 1)],
                             checks="mem", include_env=("log_stub", "memfile", "memset_model", "memcpy_model"), timeout=600 if ch == 1 else 3000,
                             tiers=("quick", "thorough") if ch == 1 else ("thorough",),
                             functions=["ima_read_s", "ima_read_block", "wavlike_ima_seek", "aiff_ima_seek", "ima_write_s", "ima_write_block", "ima_close"],
                             bounds="3 blocks of %d samples per channel, %d channel(s), block transformer = K-block contract stub; read p <= B+2, seek to any k in [0, F], read n <= B+2; write n <= B+3 split at any j" % (spb, ch)))
    return out


def ms_harnesses(sels=("SEL_SEEKREAD", "SEL_INIT")):
    out = []
    for ch in (1, 2):
        for sel in sels:
            bs = 9 if ch == 1 else 16
            spb = 2 * (bs - 6 * ch) // ch
            d = {sel: 1, "CH": ch, "BS": bs, "BS_INIT": 32 * ch, "MF_CAP": 4 + 3 * bs + 2, "MF_MAXIO": bs + 2, "MF_NFILES": 2, "MEMCPY_MAX": max((3 * spb + 4) * ch * 2, 64)}
            out.append(H("blk.ms.ch%d.%s" % (ch, sel[4:].lower()), "L3/blk_ms.c", link=["common"], stubs=["psf_log_printf", "psf_memset"], defines=d,
                         unwind=max(3 * spb * ch + 6, 4 + 3 * bs + 3), unwindset=["psf_fread.0:%d" % (bs + 3), "psf_memset.0:65", "memcpy.0:%d" % (max((3 * spb + 4) * ch * 2, 64) + 1),
                                                              "memset.0:%d" % (max((3 * spb + 4) * ch * 2, 64) + 1), "msadpcm_read_block.0:6", "msadpcm_read_s.0:3"],
                         checks="mem", include_env=("log_stub", "memfile", "memset_model", "memcpy_model"), timeout=900, fsa=200,
                         tiers=("quick", "thorough") if ch == 1 else ("thorough",),
                         functions=["msadpcm_read_s", "msadpcm_read_block", "msadpcm_seek", "msadpcm_decode_block", "wavlike_msadpcm_init"],
                         bounds="3 blocks of %d bytes (%d samples), %d channel(s), concrete position-distinct file bytes; read p <= B+2, seek to any k in [0, F], read n <= B+2" % (bs, spb, ch)))
    return out


def sds_harnesses(sels=("SEL_FLUSH", "SEL_HEADER")):
    out = []
    for sel in sels:
        for kf, blk in ((1, 0), (10, 1), (30, 0), (59, 2)):
            d = {sel: 1, "K_FIXED": kf, "BLK_FIXED": blk, "MF_CAP": 0x15 + 4 * 127 + 2, "MF_MAXIO": 128, "MEMCPY_MAX": 260}
            out.append(H("blk.sds16.%s.k%d" % (sel[4:].lower(), kf), "L3/blk_sds.c", link=["common"], stubs=["psf_log_printf", "psf_memset"], defines=d,
                         unwind=130, unwindset=["psf_fread.0:129", "psf_fwrite.0:129", "psf_memset.0:65", "memcpy.0:261", "memset.0:261", "psf_binheader_writef.1:40"],
                         checks="mem", include_env=("log_stub", "memfile", "memset_model", "memcpy_model", "snprintf_model"), timeout=900, fsa=700,
                         tiers=("quick", "thorough") if kf in (10, 59) else ("thorough",),
                         functions=["sds_close", "sds_write_header", "sds_2byte_write", "sds_2byte_read"],
                         bounds="16-bit SDS, %d complete packet(s) before, pending packet with fill level %d (grid), all sample values symbolic" % (blk, kf)))
    return out


def dwvw_harnesses():
    out = []
    for bitw, t, rd, wr, lowzero in ((16, "short", "dwvw_read_s", "dwvw_write_s", 0), (12, "short", "dwvw_read_s", "dwvw_write_s", 4),
                                     (24, "int", "dwvw_read_i", "dwvw_write_i", 8), (16, "int", "dwvw_read_i", "dwvw_write_i", 16)):
        for ns in (1, 2, 3):
            d = {"BITW": bitw, "T": t, "NDT": t, "READ_FN": rd, "WRITE_FN": wr, "LOWZERO": lowzero, "NS": ns, "MF_CAP": 40, "MF_MAXIO": 40, "MF_NFILES": 2,
                 "MEMCPY_MAX": 320, "LIBSNDFILE_VERIF_BUFFER_LEN": 16}
            out.append(H("dwvw%d.%s.n%d" % (bitw, t, ns), "L3/dwvw_rt.c", link=["common"], stubs=["psf_log_printf", "psf_memset"], defines=d,
                         unwind=34, unwindset=["psf_fread.0:41", "psf_fwrite.0:41", "psf_memset.0:65", "memcpy.0:321", "memset.0:321", "main.1:42", "main.2:42"],
                         checks="mem", solver="kissat", witness="twin", include_env=("log_stub", "memfile", "memset_model", "memcpy_model"), timeout=1800,
                         tiers=("thorough",),
                         functions=["dwvw_write_*", "dwvw_encode_data", "dwvw_encode_store_bits", "dwvw_close", "dwvw_read_*", "dwvw_decode_data", "dwvw_decode_load_bits", "dwvw_read_reset"],
                         bounds="%d-bit DWVW, %d sample(s) (grid), every sample value symbolic, split point symbolic" % (bitw, ns)))
    return out


def alac_stage_harnesses(sels=("SEL_WRITE", "SEL_READ", "SEL_SEEK")):
    """ALAC staging layer (harness/L3/alac_stage.c): position P0 inside the 4096-frame packet on the grid, LM symbolic items."""
    out = []
    apis = (("s", "short"), ("i", "int"), ("f", "float"), ("d", "double"))
    for sel in sels:
        if sel in ("SEL_SEEK", "SEL_PAKT"):
            cfgs = [(None, 2, 3, 8)]
        else:
            cfgs = [(a, ch, p0, ftb) for a in apis for ch in (1, 2) for p0, ftb in ((0, 8), (3, 8), (7, 8), (6, 8), (2, 3))
                    if not (sel == "SEL_WRITE" and ftb != 8) and not (ch == 1 and p0 in (3, 6))]
        for a, ch, p0, ftb in cfgs:
            d = {sel: 1, "CH": ch, "P0": p0, "FTB": ftb, "FPB": 8, "LM": 4, "LIBSNDFILE_VERIF_ALAC_BYTE_BUFFER_SIZE": 256, "MF_CAP": 64, "MF_MAXIO": 64, "SNP_MAX": 40, "PSF_MEMSET_MAX": 64,
                 "LIBSNDFILE_VERIF_BUFFER_LEN": 64, "SM_MAXIO": 64}
            if a is not None:
                d["API_" + a[0]] = 1; d["API_T"] = a[1]; d["API_ND"] = a[1]
            else:
                d["API_s"] = 1; d["API_T"] = "short"; d["API_ND"] = "short"
            isfloat = a is not None and a[0] in ("f", "d")
            d["SM_RELIABLE"] = 1
            if isfloat and sel == "SEL_WRITE":
                d["CONCRETE_VALUES"] = 1
            name = "alac.stage.%s%s.ch%d.p%d%s" % (sel[4:].lower(), "" if a is None else "." + a[1], ch, p0, "" if ftb == 8 else ".ftb%d" % ftb)
            out.append(H(name, "L3/alac_stage.c", link=["common", "chunk", "ALAC/ALACBitUtilities"], stubs=["psf_log_printf", "psf_memset"], defines=d, unwind=10,
                         unwindset=["psf_fread.0:65", "psf_fwrite.0:65", "snprintf.0:41", "snprintf.1:41", "alac_pakt_block_offset.0:5", "fread.0:65", "alac_pakt_encode.0:4", "alac_pakt_read_decode.0:4", "alac_pakt_read_decode.1:8", "alac_pakt_read_decode.2:8", "stub_get_chunk_data.0:42", "hash_of_str.0:8", "strlen.0:8"] + ["alac_%s_%s.%s" % (rw, t, lp) for rw in ("read", "write") for t in "sifd" for lp in ("0:6", "1:4")],
                         checks="mem", fsa=80, solver="cadical" if isfloat else "default",
                         include_env=("log_stub", "memfile", "memset_model", "snprintf_model", "stdio_model", "libm_model"), timeout=300,
                         tiers=("quick", "thorough") if (ch == 2 and p0 in (3, 7, 2) and not (isfloat and sel == "SEL_WRITE" and p0 != 3)) else ("thorough",),
                         functions=["alac_write_s/i/f/d", "alac_read_s/i/f/d", "alac_seek", "alac_encode_block", "alac_decode_block", "alac_pakt_append", "alac_pakt_block_offset"],
                         bounds="%d channel(s), frames per packet 8 (scaled down from 4096: the staging arithmetic is uniform in it), %d frames of the current packet already staged/consumed%s, one call of <= 4 items (symbolic values; position-distinct constants for the float/double writers); ALAC bit-stream library = contract stub; packet buffer 256 bytes/channel (hook)" % (
                             ch, p0, "" if ftb == 8 else " (packet holds %d frames)" % ftb)))
    return out


def paf24_harnesses(sels=("SEL_READ", "SEL_WRITE")):
    """PAF 24-bit block codec (harness/L3/paf24.c). NOT registered by any property: the measured runs (2 blocks, 4 items) gave no
    verdict within 200-300 s for most configurations and the three that finished need triage (see DESIGN B.2)."""
    out = []
    for sel in sels:
        for api in ("s", "i", "f", "d"):
            for ch in (1, 2):
                for be in (0, 1):
                    variants = [("", {}), (".seek", {"WITH_SEEK": 1})] if sel == "SEL_READ" else [(".w%d" % w, {"W0": w}) for w in (0, 3, 9)]
                    for vtag, vdef in variants:
                        if ch == 2 and be == 1 and api in ("i", "d"):
                            continue
                        d = {sel: 1, "API_" + api: 1, "CH": ch, "BIGEND": be, "NB": 2, "LM": 4, "LIBSNDFILE_VERIF_BUFFER_LEN": 32, "MF_CAP": 96 * ch, "MF_MAXIO": 64,
                             "SNP_MAX": 40, "PSF_MEMSET_MAX": 64, "MEMCPY_MAX": 80}
                        d.update(vdef)
                        isfloat = api in ("f", "d")
                        if isfloat and sel == "SEL_WRITE":
                            d["CONCRETE_VALUES"] = 1
                        out.append(H("paf24.%s.%s.ch%d.%s%s" % (sel[4:].lower(), {"s": "short", "i": "int", "f": "float", "d": "double"}[api], ch, "be" if be else "le", vtag), "L3/paf24.c",
                                     link=["common"], stubs=["psf_log_printf", "psf_memset"], defines=d, unwind=14,
                                     unwindset=["psf_fread.0:65", "psf_fwrite.0:65", "snprintf.0:41", "snprintf.1:41", "main.0:%d" % (96 * ch + 2), "main.1:%d" % (96 * ch + 2), "main.2:%d" % (96 * ch + 2), "main.3:%d" % (96 * ch + 2), "memcpy.0:81", "memset.0:81",
                                                "paf24_read_block.0:%d" % (10 * ch + 1), "paf24_write_block.0:%d" % (10 * ch + 1), "paf24_write_block.1:%d" % (10 * ch + 1), "endswap_int_array.0:%d" % (8 * ch + 1)],
                                     checks="mem", fsa=200, solver="cadical" if isfloat else "default",
                                     include_env=("log_stub", "memfile", "memset_model", "snprintf_model", "memcpy_model"), timeout=400,
                                     # measured: the read side 6..30 s; the write side (pack + flush through the calloc'ed codec block) gave no verdict in 300 s:
                                     # registered in no tier, PAF24 writes stay outside the claim
                                     tiers=() if sel == "SEL_WRITE" else ("quick", "thorough") if (ch == 2 and be == 0) or (ch == 1 and be == 1 and api == "s") else ("thorough",),
                                     functions=["paf24_init", "paf24_seek", "paf24_read_s/i/f/d", "paf24_write_s/i/f/d", "paf24_read", "paf24_write", "paf24_read_block", "paf24_write_block", "paf24_close"],
                                     bounds="%d channel(s), %s-endian file, 2 blocks, one call of <= 4 items (symbolic%s), staging buffer 8 ints (hook)%s" % (
                                         ch, "big" if be else "little", "; position-distinct constants for float/double writes" if isfloat and sel == "SEL_WRITE" else "", vtag)))
    return out


def xi_split_harnesses():
    """XI DPCM delta kernels: one call == any two-call split (harness/L3/xi_split.c)."""
    out = []
    T = {"s": ("short", "short", 0), "i": ("int", "int", 0), "f": ("float", "float", 1), "d": ("double", "double", 1)}
    F = {"dsc": ("signed char", "schar"), "dles": ("short", "short")}
    for fam in ("dsc", "dles"):
        for t, (ctype, nd, isf) in T.items():
            for enc in (1, 0):
                kernel = "%s2%s_array" % (t, fam) if enc else "%s2%s_array" % (fam, t)
                d = {"KERNEL": kernel, "ENC": enc, "HAS_NORM": isf, "N": 4, "MF_CAP": 16}
                if enc:
                    d.update({"SRC_T": ctype, "SRC_ND": nd, "DST_T": F[fam][0]})
                    if isf: d["SRC_IS_FLOAT"] = 1
                else:
                    d.update({"SRC_T": F[fam][0], "SRC_ND": F[fam][1], "DST_T": ctype})
                if isf:
                    d["NORM_T"] = ctype
                    d["NORMVAL"] = ("(1.0 * 0x7F)" if fam == "dsc" else "(1.0 * 0x7FFF)") if enc else ("(1.0 / 0x80)" if fam == "dsc" else "(1.0 / 0x8000)")
                for kfix in ((1, 3) if isf else (None,)):
                    dd = dict(d)
                    if kfix is not None: dd["K_FIXED"] = kfix
                    out.append(H("xi.split.%s%s" % (kernel[:-6], "" if kfix is None else ".k%d" % kfix), "L3/xi_split.c", link=["common"], stubs=["psf_log_printf"], defines=dd, unwind=6, checks="mem",
                                 solver="cadical" if isf else "default", include_env=("log_stub", "memfile"), timeout=300,
                                 functions=[kernel], bounds="4 items (symbolic), any predictor state, %s" % ("any split point 0..4" if kfix is None else "split point %d" % kfix)))
    return out


def ms_stage_harnesses():
    """MS ADPCM write staging (harness/L3/ms_stage.c)."""
    out = []
    for api, tname in (("s", "short"), ("i", "int"), ("f", "float"), ("d", "double")):
        for ch in (1, 2):
            isf = api in ("f", "d")
            d = {"API_" + api: 1, "CH": ch, "LM": 6, "LIBSNDFILE_VERIF_BUFFER_LEN": 8, "MF_CAP": 16, "MF_MAXIO": 16, "SNP_MAX": 40, "PSF_MEMSET_MAX": 64, "MEMCPY_MAX": 40}
            d["SC_FIXED"] = 5
            d["LEN_FIXED"] = 6
            if isf: d["CONCRETE_VALUES"] = 1
            out.append(H("ms.stage.write.%s.ch%d" % (tname, ch), "L3/ms_stage.c", link=["common"], stubs=["psf_log_printf", "psf_memset"], defines=d, unwind=9,
                         unwindset=["psf_fwrite.0:17", "memcpy.0:21", "memset.0:21", "snprintf.0:41", "snprintf.1:41"], checks="mem", fsa=160,
                         solver="cadical" if isf else "default", include_env=("log_stub", "memfile", "memset_model", "snprintf_model", "memcpy_model"), timeout=300,
                         tiers=("quick", "thorough") if ch == 2 else ("thorough",),
                         functions=["msadpcm_write_" + api, "msadpcm_write_block"],
                         bounds="%d channel(s), one call of 6 items from an exact-size heap block (symbolic values; position-distinct constants for float/double), 5 frames already staged in a 64-frame block, staging buffer 4 shorts (hook)" % ch))
    return out


def stage_generic_harnesses(sels=("SEL_READ", "SEL_WRITE")):
    """Staging wrappers of the 16-bit block codecs (harness/L3/stage_generic.c)."""
    out = []
    codecs = [("IMA", "ima_adpcm.c", "ima", (1, 2), []), ("MS", "ms_adpcm.c", "ms", (1, 2), []), ("GSM", "gsm610.c", "gsm610", (1,), []),
              ("G72X", "g72x.c", "g72x", (1,), ["G72x/g72x", "G72x/g721", "G72x/g723_16", "G72x/g723_24", "G72x/g723_40"]), ("NMS", "nms_adpcm.c", "nms", (1,), []),
              ("SDS", "sds.c", "sds", (1,), []), ("PAF24", "paf.c", "paf24", (1, 2), [])]
    for sel in sels:
        for cid, cfile, tag, chs, extra_link in codecs:
            for api, tname in (("s", "short"), ("i", "int"), ("f", "float"), ("d", "double")):
                for ch in chs:
                    if cid == "MS" and sel == "SEL_WRITE":
                        continue            # covered by ms.stage.write.*
                    isf = api in ("f", "d")
                    d = {sel: 1, "CODEC_" + cid: 1, "CODEC_FILE": '"%s"' % cfile, "API_" + api: 1, "CH": ch, "LEN": 6, "SC": 2 if cid == "PAF24" else 5, "LIBSNDFILE_VERIF_BUFFER_LEN": 8,
                         "MF_CAP": 16, "MF_MAXIO": 16, "SNP_MAX": 40, "PSF_MEMSET_MAX": 64, "MEMCPY_MAX": 40}
                    out.append(H("stage.%s.%s.%s.ch%d" % (tag, sel[4:].lower(), tname, ch), "L3/stage_generic.c", link=["common"] + extra_link + (["GSM610/gsm_create", "GSM610/gsm_destroy", "GSM610/gsm_option"] if cid == "GSM" else []),
                                 stubs=["psf_log_printf", "psf_memset"], defines=d, unwind=9,
                                 unwindset=["psf_fwrite.0:17", "psf_fread.0:17", "memcpy.0:41", "memset.0:41", "snprintf.0:41", "snprintf.1:41", "main.0:10", "main.1:10"], checks="mem", fsa=400,
                                 solver="cadical" if isf else "default", include_env=("log_stub", "memfile", "memset_model", "snprintf_model", "memcpy_model"), timeout=300,
                                 tiers=("quick", "thorough") if ch == max(chs) else ("thorough",),
                                 functions=["%s read/write wrappers and X_read_block / X_write_block" % cfile],
                                 bounds="%d channel(s), one call of 6 items to/from an exact-size heap block (symbolic values; position-distinct constants for float/double writes), a few frames into the block, staging buffer 8 bytes (hook)" % ch))
    return out


def codec_seek_harnesses():
    """X_seek target arithmetic of IMA ADPCM (WAV and AIFF layouts) with the block decoder stubbed (harness/L3/stage_generic.c SEL_SEEK)."""
    out = []
    for cid, cfile, tag, chs, extra in (("IMA", "ima_adpcm.c", "ima_wav", (1, 2), {}), ("IMA", "ima_adpcm.c", "ima_aiff", (1, 2), {"AIFF_LAYOUT": 1})):
        # (gsm610_seek is not registered: GSM files report seekable = 0, sf_seek refuses them, so its non-zero targets - where it computes the
        #  file position from samples-per-block instead of the block size - cannot be reached through the public API: a unit-level
        #  counterexample there is not a finding, DESIGN B.4)
        for ch in chs:
            d = {"SEL_SEEK": 1, "CODEC_" + cid: 1, "CODEC_FILE": '"%s"' % cfile, "API_s": 1, "CH": ch, "LEN": 6, "SC": 5, "LIBSNDFILE_VERIF_BUFFER_LEN": 8,
                 "MF_CAP": 16, "MF_MAXIO": 16, "MF_ABSTRACT": 1, "SNP_MAX": 40, "PSF_MEMSET_MAX": 64, "MEMCPY_MAX": 40}
            d.update(extra)
            out.append(H("seek.%s.ch%d" % (tag, ch), "L3/stage_generic.c", link=["common"] + (["GSM610/gsm_create", "GSM610/gsm_destroy", "GSM610/gsm_option"] if cid == "GSM" else []),
                         stubs=["psf_log_printf", "psf_memset"], defines=d, unwind=9, unwindset=["psf_fread.0:17", "memcpy.0:41", "memset.0:41", "snprintf.0:41", "snprintf.1:41"], checks="mem", fsa=400,
                         include_env=("log_stub", "memfile", "memset_model", "snprintf_model", "memcpy_model"), timeout=300,
                         functions=["wavlike_ima_seek / aiff_ima_seek / gsm610_seek"], bounds="%d channel(s), 6 blocks, any 64-bit frame offset; block decoder = stub that records where it was called" % ch))
    return out
