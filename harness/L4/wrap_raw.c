/* L4: the real sf_read_raw / sf_write_raw (src/sndfile.c) + real
 * psf_default_seek (src/common.c) over E-memfile, handle in an arbitrary
 * I_open state (16-bit, CH channels, dataoffset 4). C05 (raw variants), C09.
 */
#include "verif.h"
#include <stdlib.h>
#include "sndfile.c"
#include "handle.h"
#include "memfile.h"

#define BW		2
#define DOFF		4
#define BLK		(BW * CH)
#define REQ_MAX		(2 * BLK)
#define BUF_CELLS	(REQ_MAX + BLK + 2)
#define SENT		0x55

static SF_PRIVATE g_psf ;
static unsigned char g_buf [BUF_CELLS] ;
static int g_hdr_calls, g_hdr_calc ;

static int
stub_write_header (SF_PRIVATE *psf, int calc_length)
{	g_hdr_calls ++ ;
	if (calc_length) g_hdr_calc ++ ;
	(void) psf ;
	return 0 ;
}

int
main (void)
{	SF_PRIVATE *psf = &g_psf ;
	HSNAP before ;
	sf_count_t nd_bytes = nondet_i64 (), ret, p, F, i ;
	unsigned char file0 [MF_CAP], nd_file [MF_CAP], nd_src [BUF_CELLS] ;
	int k ;

	handle_arbitrary (psf, CH, BW) ;
	psf->dataoffset = DOFF ;
	psf->dataend = 0 ;
	psf->sf.seekable = SF_TRUE ;
	psf->seek = psf_default_seek ;
	psf->write_header = stub_write_header ;
	VASSUME (nd_bytes >= -REQ_MAX && nd_bytes <= REQ_MAX) ;

	/* file: header + frames * blockwidth bytes of symbolic audio, maybe trailing bytes */
	ND_FILL (nd_file, MF_CAP, uchar) ;
	ND_FILL (nd_src, BUF_CELLS, uchar) ;
	for (k = 0 ; k < MF_CAP ; k++)
	{	unsigned char nd_fb = nd_file [k] ;
		VASSUME (nd_fb != SENT && nd_fb != 0) ;
		mf [0].data [k] = nd_fb ;
		file0 [k] = nd_fb ;
		} ;
	{	int nd_tail = nondet_int () ;
		VASSUME (nd_tail >= 0 && nd_tail <= 2 * BLK) ;
#ifdef KF_rawtail
		VASSUME (nd_tail % BLK == 0) ;		/* known finding excluded: partial frame after the audio data */
#endif
#ifdef PROBE_rawtail
		VASSUME (nd_tail % BLK != 0) ;
#endif
		mf [0].len = DOFF + psf->sf.frames * BLK + nd_tail ;
	}
	/* file position invariant: after an op the descriptor sits at that pointer */
	mf [0].pos = DOFF + BLK * (psf->last_op == SFM_READ ? psf->read_current : psf->write_current) ;
	for (k = 0 ; k < BUF_CELLS ; k++)
		g_buf [k] = DIR_READ ? SENT : nd_src [k] ;

	hsnap_take (psf, &before) ;
	p = DIR_READ ? psf->read_current : psf->write_current ;
	F = psf->sf.frames ;

#if DIR_READ
	ret = sf_read_raw ((SNDFILE *) psf, g_buf, nd_bytes) ;
	for (i = 0 ; i < BUF_CELLS ; i++)
		if (i >= nd_bytes)
			VASSERT (g_buf [i] == SENT, "memory outside the requested region is never written") ;
	if (nd_bytes == 0)
		VASSERT (ret == 0 && hsnap_same (psf, &before), "zero-length request") ;
	else if (before.mode == SFM_WRITE || (nd_bytes > 0 && nd_bytes % BLK != 0 && p < F))
	{	VASSERT (ret == 0 && psf->error != 0 && hsnap_same (psf, &before), "invalid raw read fails cleanly") ;
		}
	else if (nd_bytes < 0)
	{	VASSERT (ret == 0 && hsnap_same (psf, &before), "negative raw read returns 0, nothing changes") ;
		}
	else if (p >= F)
	{	VASSERT (ret == 0 && psf->read_current == p && psf->error == 0, "at end of data: 0, no error") ;
		for (i = 0 ; i < REQ_MAX ; i++)
			if (i < nd_bytes)
				VASSERT (g_buf [i] == 0, "at end of data: request zero-filled") ;
		}
	else
	{	sf_count_t exp = (F - p) * BLK ;
		if (nd_bytes < exp) exp = nd_bytes ;
		VASSERT (ret == exp, "raw read returns min (requested, bytes left in the audio data)") ;
		VASSERT (psf->read_current == p + ret / BLK, "read position advances by exactly the frames returned") ;
		VASSERT (psf->write_current == before.write_current && psf->sf.frames == F, "raw read leaves write position and frame count alone") ;
		for (i = 0 ; i < REQ_MAX ; i++)
			if (i < ret)
				VASSERT (g_buf [i] == file0 [DOFF + p * BLK + i], "raw read delivers the stored bytes at the read position") ;
			else if (i < nd_bytes)
				VASSERT (g_buf [i] == 0 || g_buf [i] == SENT, "bytes past the audio data are zero or untouched, never the file tail") ;
		VASSERT (psf->error == 0, "successful raw read leaves no error") ;
		} ;
#else
	ret = sf_write_raw ((SNDFILE *) psf, g_buf, nd_bytes) ;
	if (nd_bytes == 0)
		VASSERT (ret == 0 && hsnap_same (psf, &before), "zero-length request") ;
	else if (nd_bytes < 0 || before.mode == SFM_READ || nd_bytes % BLK != 0)
	{	VASSERT (ret == 0 && psf->error != 0 && hsnap_same (psf, &before), "invalid raw write fails cleanly") ;
		for (k = 0 ; k < MF_CAP ; k++)
			VASSERT (mf [0].data [k] == file0 [k], "invalid raw write leaves the file bytes unchanged") ;
		}
	else
	{	VASSERT (ret == nd_bytes, "raw write accepts the whole request (no I/O failure in this model)") ;
		VASSERT (psf->write_current == p + nd_bytes / BLK, "write position advances by exactly the frames written") ;
		VASSERT (psf->sf.frames == (p + nd_bytes / BLK > F ? p + nd_bytes / BLK : F), "frame count = max (old, write position)") ;
		VASSERT (psf->have_written == SF_TRUE, "have_written latched (late metadata must be refused afterwards)") ;
		VASSERT (psf->read_current == before.read_current, "raw write leaves the read position alone") ;
		VASSERT (g_hdr_calls - g_hdr_calc == (before.have_written == SF_FALSE ? 1 : 0), "header written once before first data") ;
		for (k = 0 ; k < MF_CAP ; k++)
		{	sf_count_t a = DOFF + p * BLK ;
			if (k >= a && k < a + nd_bytes)
				VASSERT (mf [0].data [k] == g_buf [k - a], "bytes land at the write position") ;
			else
				VASSERT (mf [0].data [k] == file0 [k], "bytes outside the written range are preserved") ;
			} ;
		VASSERT (psf->error == 0, "successful raw write leaves no error") ;
		} ;
#endif
	WITNESS_END () ;
	return 0 ;
}
