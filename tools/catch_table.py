#!/usr/bin/env python3
"""Regenerates DESIGN.md section B.9 (which checks catch which seeded changes) from seeded/*/meta.json (written by tools/seed_matrix.py)."""
import json, os, glob, re, sys
V = "/verif"
rows = []
for d in sorted(glob.glob(V + "/seeded/*")):
    mp = os.path.join(d, "meta.json")
    if not os.path.isfile(mp): continue
    m = json.load(open(mp))
    name = os.path.basename(d)
    patch = open(os.path.join(d, "patch.diff")).read()
    files = sorted({l.split(" b/")[-1].strip() for l in patch.splitlines() if l.startswith("diff --git")})
    funcs = []
    for l in patch.splitlines():
        mm = re.match(r"^@@.*@@ (\w+)", l)
        if mm and mm.group(1) not in funcs: funcs.append(mm.group(1))
    det = m.get("detected_by")
    ran = m.get("checks_run_against_it", [])
    tier = m.get("detected_tier", "quick")
    if det is None: res = "not run"
    elif det: res = "**caught** (%s): %s" % (tier, "; ".join(det))
    else: res = "missed (quick tier: %s)" % ", ".join("%s%s" % (r["check"], (":" + r["only"]) if r.get("only") else "") for r in ran)
    rows.append((name, m.get("property", "?"), ", ".join(f.replace("src/", "") for f in files) + (" (" + ", ".join(funcs[:2]) + ")" if funcs else ""), res))
out = ["| seeded change | property | site | result |", "|---|---|---|---|"]
for r in rows: out.append("| %s | %s | %s | %s |" % r)
agent = [r for r in rows if not r[0].startswith("R_")]
rev = [r for r in rows if r[0].startswith("R_")]
c = lambda rs: sum(1 for r in rs if r[3].startswith("**caught"))
summary = "Sub-agent changes caught: %d of %d; reverts of the fix commits caught: %d of %d." % (c(agent), len(agent), c(rev), len(rev))
text = "\n".join(out)
if "--print" in sys.argv:
    print(summary); print(text); sys.exit(0)
p = os.path.join(V, "DESIGN.md"); s = open(p).read()
a, b = "<!-- CATCH-TABLE-BEGIN -->", "<!-- CATCH-TABLE-END -->"
if a in s:
    s = s[:s.index(a) + len(a)] + "\n" + summary + "\n\n" + text + "\n" + s[s.index(b):]
    open(p, "w").write(s)
print(summary)
