/* C16 H5 / C15 H7: codecs that own a library state block. The real X_init
 * (gsm610_init / g72x_init: private block, library state, first block decode
 * in read mode) in READ or WRITE mode over the FAULTY memory file (every
 * psf_fread / psf_fseek may fail or be short), with the codec library itself
 * a contract stub (create = malloc, destroy = free, decode may report an
 * error), followed by the REAL psf_close - whatever X_init returned, as
 * psf_open_file does on failure. CBMC --memory-leak-check: the private block
 * and the library state are released on every path; the descriptor is closed
 * once.
 */
#include "verif.h"
#include <stdlib.h>
#include <string.h>
#include "sndfile.c"
#include CODEC_FILE
#include "memfile.h"

static int g_lib_live ;

#if defined (CODEC_GSM)
/* contract stubs of libgsm (src/GSM610) */
struct gsm_state { int dummy [4] ; } ;
gsm gsm_create (void) { gsm g = malloc (sizeof (struct gsm_state)) ; if (g != NULL) g_lib_live ++ ; return g ; }
void gsm_destroy (gsm g) { if (g != NULL) g_lib_live -- ; free (g) ; }
int gsm_option (gsm g, int opt, int *val) { (void) g ; (void) opt ; (void) val ; return 0 ; }
int gsm_decode (gsm g, gsm_byte *c, gsm_signal *target)
{	int nd_gsmerr = nondet_int () ; short nd_smp = nondet_short () ;
	(void) g ; (void) c ;
	target [0] = nd_smp ;
	return nd_gsmerr == 1 ? -1 : 0 ;
}
void gsm_encode (gsm g, gsm_signal *source, gsm_byte *c) { (void) g ; (void) source ; c [0] = 0xd0 ; }
#define INIT_FN(psf)	gsm610_init (psf)
#elif defined (CODEC_G72X)
struct g72x_state { int dummy [8] ; } ;
static struct g72x_state *stub_g72x_init (int codec, int *blocksize, int *samplesperblock)
{	struct g72x_state *s = malloc (sizeof (*s)) ;
	(void) codec ;
	/* (g72x_close releases this block with free (): the leak check is the obligation, no ghost counter) */
	*blocksize = 60 ; *samplesperblock = 120 ;
	return s ;
}
struct g72x_state *g72x_reader_init (int codec, int *blocksize, int *samplesperblock) { return stub_g72x_init (codec, blocksize, samplesperblock) ; }
struct g72x_state *g72x_writer_init (int codec, int *blocksize, int *samplesperblock) { return stub_g72x_init (codec, blocksize, samplesperblock) ; }
int g72x_decode_block (struct g72x_state *pstate, const unsigned char *block, short *samples) { short nd_smp = nondet_short () ; (void) pstate ; (void) block ; samples [0] = nd_smp ; return 0 ; }
int g72x_encode_block (struct g72x_state *pstate, short *samples, unsigned char *block) { (void) pstate ; (void) samples ; block [0] = 0 ; return 60 ; }
#define INIT_FN(psf)	g72x_init (psf)
#else
#error "CODEC"
#endif

static SF_PRIVATE g_static ;
static unsigned char g_hdr [300] ;
static int stub_write_header (SF_PRIVATE *psf, int calc) { (void) psf ; (void) calc ; return 0 ; }

int
main (void)
{	SF_PRIVATE *psf = &g_static, *hp ;
	int nd_flen = nondet_int (), rc ;

	{	static const SF_PRIVATE zero_psf ;
		*psf = zero_psf ;
		psf->header.ptr = g_hdr ; psf->header.len = sizeof (g_hdr) ;
	}
	psf->Magick = SNDFILE_MAGICK ;
	psf->file.filedes = 0 ; psf->rsrc.filedes = -1 ;
	psf->file.mode = MODE ;
	psf->sf.channels = 1 ; psf->sf.samplerate = 8000 ; psf->sf.format = FMT ;
	psf->sf.sections = 1 ;
	psf->write_header = stub_write_header ;
	VASSUME (nd_flen >= 0 && nd_flen <= 160) ;
	mf [0].len = (MODE == SFM_READ) ? nd_flen : 0 ;
	mf [0].pos = 0 ;
	psf->dataoffset = 24 ;
	psf->filelength = mf [0].len ;
	psf->datalength = psf->filelength > psf->dataoffset ? psf->filelength - psf->dataoffset : 0 ;

	rc = INIT_FN (psf) ;
	VASSERT (rc >= 0 && rc <= SFE_MAX_ERROR, "codec init returns 0 or a defined error code") ;

	/* psf_open_file: on error straight to psf_close; on success the handle is closed later - either way: */
	hp = malloc (sizeof (SF_PRIVATE)) ;
	VASSUME (hp != NULL) ;
	*hp = *psf ;
	hp->header.ptr = malloc (16) ;
	rc = psf_close (hp) ;
	VASSERT (mf [0].n_close == 1, "the descriptor is closed exactly once") ;
	VASSERT (g_lib_live == 0, "the codec library state is destroyed by the close, whatever the init outcome") ;
	WITNESS_END () ;
	return 0 ;
}
