/* E-posix: read/write/lseek/fstat/ftruncate/close/fsync over one in-memory
 * "disk file" with a ghost descriptor table. Used only with the REAL
 * src/file_io.c (C14, C15 H5, C16 ghost). Every call may fail with EINTR
 * first (bounded: at most PX_EINTR_MAX consecutive interruptions), and with
 * PX_FAULTY may transfer fewer bytes / fail. */
#include <sys/types.h>
#include <sys/stat.h>
#include <errno.h>
#include <unistd.h>
#include "verif.h"
#include "posix_model.h"

PX_STATE px ;

static int
px_valid (int fd)
{	return fd >= 0 && fd < PX_NFD && px.fd [fd].open ;
}

static int
px_eintr (void)
{	int nd_eintr = nondet_int () ;
	if (nd_eintr == 1 && px.eintr_run < PX_EINTR_MAX)
	{	px.eintr_run ++ ;
		errno = EINTR ;
		return 1 ;
		} ;
	px.eintr_run = 0 ;
	return 0 ;
}

ssize_t
read (int fd, void *buf, size_t count)
{	size_t avail, n, i ;
	unsigned char *dst = (unsigned char *) buf ;
	px.n_read ++ ;
	if (! px_valid (fd)) { errno = EBADF ; px.bad_fd_use ++ ; return -1 ; } ;
	if (px_eintr ()) return -1 ;
	if (px.fd [fd].pos >= 0 && px.fd [fd].pos + (off_t) count <= px.len_min)
		n = count ;
	else
	{	avail = px.fd [fd].pos < px.len ? (size_t) (px.len - px.fd [fd].pos) : 0 ;
		n = count < avail ? count : avail ;
		} ;
#ifdef PX_FAULTY
	{	size_t nd_rshort = nondet_u64 () ;
		if (nd_rshort < n) n = nd_rshort ;
	}
#endif
	for (i = 0 ; i < count && i < PX_MAXIO ; i++)
	{	if (i >= n) break ;
		dst [i] = px.data [px.fd [fd].pos + i] ;
		} ;
	VASSERT (n <= PX_MAXIO, "posix model: read within PX_MAXIO (harness bound)") ;
	px.fd [fd].pos += n ;
	return (ssize_t) n ;
}

ssize_t
write (int fd, const void *buf, size_t count)
{	size_t room, n, i ;
	const unsigned char *src = (const unsigned char *) buf ;
	px.n_write ++ ;
	if (! px_valid (fd)) { errno = EBADF ; px.bad_fd_use ++ ; return -1 ; } ;
	if (px_eintr ()) return -1 ;
	room = px.fd [fd].pos < PX_CAP ? (size_t) (PX_CAP - px.fd [fd].pos) : 0 ;
	n = count < room ? count : room ;
#ifdef PX_FAULTY
	{	size_t nd_wshort = nondet_u64 () ;
		if (nd_wshort < n) n = nd_wshort ;
	}
#endif
	if (n == 0 && count > 0) { errno = ENOSPC ; return -1 ; } ;
	for (i = 0 ; i < count && i < PX_MAXIO ; i++)
	{	if (i >= n) break ;
		px.data [px.fd [fd].pos + i] = src [i] ;
		} ;
	VASSERT (n <= PX_MAXIO, "posix model: write within PX_MAXIO (harness bound)") ;
	px.fd [fd].pos += n ;
	if (px.fd [fd].pos > px.len) px.len = px.fd [fd].pos ;
	return (ssize_t) n ;
}

off_t
lseek (int fd, off_t offset, int whence)
{	off_t np ;
	px.n_seek ++ ;
	if (! px_valid (fd)) { errno = EBADF ; px.bad_fd_use ++ ; return -1 ; } ;
	if (px.is_fifo) { errno = ESPIPE ; return -1 ; } ;
	if (whence == SEEK_SET) np = offset ;
	else if (whence == SEEK_CUR) np = px.fd [fd].pos + offset ;
	else if (whence == SEEK_END) np = px.len + offset ;
	else { errno = EINVAL ; return -1 ; } ;
	if (np < 0) { errno = EINVAL ; return -1 ; } ;
	px.fd [fd].pos = np ;
	return np ;
}

int
fstat (int fd, struct stat *st)
{	if (! px_valid (fd)) { errno = EBADF ; px.bad_fd_use ++ ; return -1 ; } ;
	st->st_size = px.len ;
	st->st_mode = px.is_fifo ? S_IFIFO : S_IFREG ;
	return 0 ;
}

int
ftruncate (int fd, off_t length)
{	if (! px_valid (fd)) { errno = EBADF ; px.bad_fd_use ++ ; return -1 ; } ;
	if (length < 0 || length > PX_CAP) { errno = EINVAL ; return -1 ; } ;
	px.len = length ;
	if (px.len_min > length) px.len_min = length ;
	return 0 ;
}

int
close (int fd)
{	px.n_close ++ ;
	if (! px_valid (fd)) { errno = EBADF ; px.bad_fd_use ++ ; px.bad_close ++ ; return -1 ; } ;
	if (px_eintr ()) return -1 ;
	px.fd [fd].open = 0 ;
	px.fd [fd].closed_by_lib ++ ;
	return 0 ;
}

int fsync (int fd) { (void) fd ; return 0 ; }
