/* C18 H1 (+ C07 H1 for the PEAK fields): float32.c / double64.c write paths with
 * PEAK tracking: real X_init + host_write_{s,i,f,d}2X + X_peak_update over
 * E-memfile. From an ARBITRARY prior peak state (consistent with some
 * history) write <= FR_W frames of symbolic samples, in one call and in two
 * calls split at a symbolic frame j (the wrapper's write_current bookkeeping
 * in between). Oracle (comparisons only): per channel, value = max (prior,
 * max |stored sample|), position = frame index of the FIRST occurrence of that
 * maximum (ties!), identical however the write was split.
 */
#include "verif.h"
#include <stdlib.h>
#include <string.h>
#include <math.h>
#include CODEC_FILE
#include "memfile.h"

#define CAT_(a, b)	a ## b
#define CAT(a, b)	CAT_ (a, b)
#define WR(p)		CAT ((p)->write_, TN)
#define FR_W		3
#define NIT		(FR_W * CH)

static SF_PRIVATE g_psf [2] ;
typedef struct { PEAK_INFO pi ; PEAK_POS slots [CH] ; } PEAKBUF ;
static PEAKBUF g_peak [2] ;

static void
setup (SF_PRIVATE *psf, int fd, sf_count_t wc, const PEAKBUF *prior)
{	int rc ;
	psf->file.filedes = fd ;
	psf->file.mode = SFM_WRITE ;
	psf->sf.channels = CH ;
	psf->sf.format = FMT ;
	psf->endian = SF_ENDIAN_LITTLE ;
	psf->norm_float = SF_TRUE ;
	psf->norm_double = SF_TRUE ;
	psf->bytewidth = FW ;
	g_peak [fd] = *prior ;
	psf->peak_info = &g_peak [fd].pi ;
	rc = CODEC_INIT (psf) ;
	VASSERT (rc == 0, "codec init") ;
	psf->write_current = wc ;
	mf [fd].len = 0 ; mf [fd].pos = 0 ;
}

static FT
stored (int fd, int k)
{	FT v ;
	memcpy (&v, &mf [fd].data [k * FW], FW) ;
	return v ;
}

int
main (void)
{	SF_PRIVATE *a = &g_psf [0], *b = &g_psf [1] ;
	T nd_in [NIT] ;
	PEAKBUF prior ;
	sf_count_t nd_wc = nondet_i64 () ;
	int nd_fr = nondet_int () ;
	int nd_j = nondet_int () ;
	double nd_pv [CH] ;
	sf_count_t nd_pp [CH] ;
	sf_count_t w ;
	int ch, k ;

	ND_FILL (nd_in, NIT, NDT) ;
#ifdef CONCRETE_VALUES
	/* position bookkeeping across staging chunks and channels with magnitudes growing towards the end (the maximum of
	** every channel lies in the LAST staging chunk); the fully symbolic 2-channel variants give no verdict within budget */
	for (k = 0 ; k < NIT ; k++) nd_in [k] = (T) (IS_FLOAT_T ? 0.125 * (k + 1) : 1000 * (k + 1)) ;
#endif
	ND_FILL (nd_pv, CH, double) ;
	ND_FILL (nd_pp, CH, i64) ;
#if IS_FLOAT_T
	for (k = 0 ; k < NIT ; k++) VASSUME (nd_in [k] == nd_in [k] && nd_in [k] > (T) -1e30 && nd_in [k] < (T) 1e30) ;
#endif
	VASSUME (nd_wc >= 0 && nd_wc <= 8) ;
	VASSUME (nd_fr >= 1 && nd_fr <= FR_W) ;
	VASSUME (nd_j >= 0 && nd_j <= nd_fr) ;
	memset (&prior, 0, sizeof (prior)) ;
	for (ch = 0 ; ch < CH ; ch++)
	{	/* prior peak of a history of nd_wc frames: non-negative, position inside the history */
		VASSUME (nd_pv [ch] == nd_pv [ch] && nd_pv [ch] >= 0.0 && nd_pv [ch] < 1e30) ;
		VASSUME ((nd_wc == 0 && nd_pv [ch] == 0.0 && nd_pp [ch] == 0) || (nd_wc > 0 && nd_pp [ch] >= 0 && nd_pp [ch] < nd_wc)) ;
		prior.pi.peaks [ch].value = nd_pv [ch] ;
		prior.pi.peaks [ch].position = nd_pp [ch] ;
		} ;

	/* A: one call */
	setup (a, 0, nd_wc, &prior) ;
	w = WR (a) (a, nd_in, (sf_count_t) nd_fr * CH) ;
	VASSERT (w == (sf_count_t) nd_fr * CH, "write accepted") ;
	/* B: two calls split at frame j, write_current advanced in between as the public wrapper does */
	setup (b, 1, nd_wc, &prior) ;
	if (nd_j > 0)
	{	w = WR (b) (b, nd_in, (sf_count_t) nd_j * CH) ;
		b->write_current += w / CH ;
		} ;
	if (nd_fr - nd_j > 0)
		w = WR (b) (b, nd_in + nd_j * CH, (sf_count_t) (nd_fr - nd_j) * CH) ;

	for (ch = 0 ; ch < CH ; ch++)
	{	double m = nd_pv [ch] ;
		sf_count_t pos = nd_pp [ch] ;
		for (k = 0 ; k < FR_W ; k++)
			if (k < nd_fr)
			{	double v = fabs ((double) stored (0, k * CH + ch)) ;
				if (v > m) { m = v ; pos = nd_wc + k ; } ;
				} ;
		VASSERT (g_peak [0].pi.peaks [ch].value == m, "peak value == max (prior peak, max |stored sample|) of that channel") ;
		VASSERT (g_peak [0].pi.peaks [ch].position == pos, "peak position == frame index of the first occurrence of the maximum") ;
		VASSERT (g_peak [1].pi.peaks [ch].value == g_peak [0].pi.peaks [ch].value && g_peak [1].pi.peaks [ch].position == g_peak [0].pi.peaks [ch].position,
				"peak value and position do not depend on how the write was split") ;
		} ;
	for (k = 0 ; k < NIT * FW ; k++)
		if (k < nd_fr * CH * FW)
			VASSERT (mf [1].data [k] == mf [0].data [k], "stored samples do not depend on the split") ;
	WITNESS_END () ;
	return 0 ;
}
