/* E-log: psf_log_printf has an empty body (formatting is not the subject of
 * the harnesses that link this; the real function has its own harness in C03).
 * Linked units must have the real body removed (stubs=["psf_log_printf"]). */
#include "sfconfig.h"
#include "sndfile.h"
#include "common.h"
void
psf_log_printf (SF_PRIVATE *psf, const char *format, ...)
{	(void) psf ; (void) format ;
}

#if defined (STUB_APPEND_SNPRINTF) && (defined (VERIF_CBMC) || defined (__CPROVER__))
/* append_snprintf (src/common.c) only builds log text; the model appends nothing (dest stays a terminated
 * string). Linked units must have the real body removed (stubs=["append_snprintf"]). Native replay uses the real one. */
void
append_snprintf (char *dest, size_t maxlen, const char *fmt, ...)
{	(void) dest ; (void) maxlen ; (void) fmt ;
}
#endif
