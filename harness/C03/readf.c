/* C03 L0 (+ C15): the header-cache primitives every parser is built on - the
 * REAL psf_binheader_readf with header_read / header_seek / header_gets /
 * psf_bump_header_allocation (src/common.c) over E-memfile with
 * nondeterministic content - one call from an ARBITRARY valid cache state:
 *   heap block of LEN bytes (exact size: CBMC's pointer checks see every
 *   access past it), 0 <= indx, end <= len, the cache at its ceiling (hook
 *   LIBSNDFILE_VERIF_MAX_HEADER = LEN: growth is refused, the state the
 *   shipped library reaches after 100 KiB of header chunks) or below it
 *   (MAX_HEADER = 2 * LEN: one growth step is possible);
 *   file length, position, pipe / regular file symbolic.
 * Directives: "j" (skip, any signed count), "b" (copy count bytes into an
 * exact-size caller block), "p" (absolute position), fixed-width reads,
 * "G" (line read). Obligations: no access outside the cache block or the
 * caller's block, cache invariant preserved, bounded loops (a pipe at EOF
 * does not spin), the returned byte count never exceeds what was asked for.
 */
#include "verif.h"
#include <stdlib.h>
#include <string.h>
#include "sfconfig.h"
#include "sndfile.h"
#include "common.h"
#include "memfile.h"

#ifndef LEN
#define LEN 32
#endif
#ifndef DSTMAX
#define DSTMAX 48
#endif

static SF_PRIVATE g_psf ;

int
main (void)
{	SF_PRIVATE *psf = &g_psf ;
	int nd_indx = nondet_int (), nd_end = nondet_int (), nd_flen = nondet_int (), nd_fpos = nondet_int (), nd_pipe = nondet_int () ;
	int nd_count = nondet_int () ;
	int ret = 0 ;

	{	static const SF_PRIVATE zero_psf ;
		*psf = zero_psf ;
	}
	psf->file.filedes = 0 ;
	psf->file.mode = SFM_READ ;
	psf->header.ptr = calloc (1, LEN) ;
	VASSUME (psf->header.ptr != NULL) ;
	psf->header.len = LEN ;
	/* (indx may exceed end: a "p" to a position the file does not reach leaves indx = position, end = what was read) */
	VASSUME (nd_indx >= 0 && nd_indx <= LEN && nd_end >= 0 && nd_end <= LEN) ;
	psf->header.indx = nd_indx ; psf->header.end = nd_end ;
	VASSUME (nd_flen >= 0 && nd_flen <= 200 && nd_fpos >= 0 && nd_fpos <= 200) ;
	mf [0].len = nd_flen ; mf [0].pos = nd_fpos ;
	VASSUME (nd_pipe == 0 || nd_pipe == 1) ;
#ifdef PIPE_FIXED
	nd_pipe = PIPE_FIXED ;
#endif
	psf->is_pipe = nd_pipe ;
	psf->rwf_endian = SF_ENDIAN_LITTLE ;

#if defined (SEL_J)
	VASSUME (nd_count >= -40 && nd_count <= 60) ;
	ret = psf_binheader_readf (psf, "j", nd_count) ;
#elif defined (SEL_B)
	{	unsigned char *dst ;
		VASSUME (nd_count >= 0 && nd_count <= DSTMAX) ;
		dst = malloc (nd_count) ;
		VASSUME (dst != NULL) ;
		ret = psf_binheader_readf (psf, "b", dst, nd_count) ;
		/* (from a state with indx > end the byte count header_read reports includes the gap it had to fill: not a C03 matter) */
		VASSERT (ret >= 0 && (ret <= nd_count || nd_indx > nd_end), "\"b\": at most count bytes are delivered") ;
	}
#elif defined (SEL_P)
	VASSUME (nd_count >= 0 && nd_count <= 100) ;
	ret = psf_binheader_readf (psf, "p", nd_count) ;
#elif defined (SEL_FIXED)
	{	int v4 = 0, m = 0 ; short v2 = 0 ; sf_count_t v8 = 0 ; unsigned char v1 = 0 ;
		ret = psf_binheader_readf (psf, "Em421e8", &m, &v4, &v2, &v1, &v8) ;
		VASSERT (ret >= 0 && ret <= 4 + 4 + 2 + 1 + 8, "fixed-width reads: byte count bounded by the directives") ;
	}
#elif defined (SEL_G)
	{	char *line ;
		VASSUME (nd_count >= 1 && nd_count <= 24) ;
		line = malloc (nd_count) ;
		VASSUME (line != NULL) ;
		ret = psf_binheader_readf (psf, "G", line, nd_count) ;
		VASSERT (ret >= 0 && ret < nd_count + 1, "\"G\": at most bufsize - 1 characters plus the terminator") ;
	}
#else
#error "select"
#endif
	VASSERT (psf->header.indx >= 0 && psf->header.indx <= psf->header.len && psf->header.end >= 0 && psf->header.end <= psf->header.len, "header cache invariant 0 <= indx, end <= len preserved") ;
	VASSERT (V_OBJSIZE (psf->header.ptr) >= (size_t) psf->header.len, "the cache block holds header.len bytes") ;
	WITNESS_END () ;
	return 0 ;
}
