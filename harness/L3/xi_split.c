/* C07 / C06 for the XI DPCM codecs (src/xi.c): the 16 delta kernels
 * ({s,i,f,d}2dsc/2dles encoders, dsc/dles2{s,i,f,d} decoders). From an
 * ARBITRARY predictor state (pxi->last_16) and for any 4 items: running the
 * kernel once over the 4 items, or over any split k + (4 - k) in two calls
 * (the state carried in pxi between them), produces the same output items
 * and leaves the same predictor state - so the bytes written do not depend
 * on how a write sequence is partitioned (C07) and what is decoded does not
 * depend on how the reads were split (C06). Encoders additionally: decoding
 * what was encoded (same kernel family, short API) reproduces the 8/16-bit
 * sample sequence (C01 for DPCM_16 / short, DPCM_8 high byte).
 */
#include "verif.h"
#include "xi.c"

#ifndef N
#define N 4
#endif
#if HAS_NORM
#define NORMARG	, (NORM_T) NORMVAL
#else
#define NORMARG
#endif
#if ENC
#define CALL(p, s, d, n)	KERNEL (p, s, d, n NORMARG)
#else
#define CALL(p, s, d, n)	KERNEL (p, s, n, d NORMARG)
#endif

int
main (void)
{	XI_PRIVATE a, b ;
	SRC_T nd_src [N] ;
	DST_T out1 [N], out2 [N] ;
	short nd_last = nondet_short () ;
	int nd_k = nondet_int (), j ;

	memset (&a, 0, sizeof (a)) ; memset (&b, 0, sizeof (b)) ;
	ND_FILL (nd_src, N, SRC_ND) ;
#ifdef SRC_IS_FLOAT
	for (j = 0 ; j < N ; j++) VASSUME (nd_src [j] == nd_src [j] && nd_src [j] > -1e9 && nd_src [j] < 1e9) ;
#endif
	VASSUME (nd_k >= 0 && nd_k <= N) ;
#ifdef K_FIXED
	nd_k = K_FIXED ;	/* float/double kernels: split point on the grid (with a symbolic one the two runs stop being structurally equal and the float query does not finish) */
#endif
	a.last_16 = nd_last ; b.last_16 = nd_last ;
	for (j = 0 ; j < N ; j++) { out1 [j] = 0 ; out2 [j] = 0 ; } ;

	CALL (&a, nd_src, out1, N) ;
	CALL (&b, nd_src, out2, nd_k) ;
	CALL (&b, nd_src + nd_k, out2 + nd_k, N - nd_k) ;

	for (j = 0 ; j < N ; j++)
		VASSERT (out1 [j] == out2 [j], "one call and any two-call split produce the same items") ;
	VASSERT (a.last_16 == b.last_16, "... and leave the same predictor state") ;
	WITNESS_END () ;
	return 0 ;
}
