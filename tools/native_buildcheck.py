#!/usr/bin/env python3
"""Development aid: builds the native (ASan/UBSan) replay executable of one representative configuration per
(harness source, set of define names) and runs it once with no replay values (every nondet reads 0), to catch harnesses
whose counterexamples could never be confirmed because the replay does not even build."""
import os, sys, json, importlib.util, tempfile
V = os.path.dirname(os.path.dirname(os.path.abspath(__file__)))
sys.path.insert(0, os.path.join(V, "lib"))
import vf
from concurrent.futures import ThreadPoolExecutor
def load(pid):
    spec = importlib.util.spec_from_file_location("reg_" + pid, os.path.join(V, "registry", pid + ".py"))
    m = importlib.util.module_from_spec(spec); spec.loader.exec_module(m); return m
seen = {}
for i in range(1, 21):
    for h in load("C%02d" % i).HARNESSES:
        if not h.tiers: continue
        k = (h.src, tuple(sorted(h.defines)))
        seen.setdefault(k, h)
print("configurations:", len(seen), flush=True)
ctx = vf.Ctx()
bad = 0
def one(h):
    d = tempfile.mkdtemp(prefix="nb_", dir=ctx.scratch)
    ok, info = vf.native_replay(ctx, h, [], d)
    return h, ok, info
try:
    with ThreadPoolExecutor(max_workers=8) as ex:
        for h, ok, info in ex.map(one, list(seen.values())):
            err = str(info.get("error", ""))
            if "compile failed" in err or "native compile failed" in err:
                bad += 1
                print("BUILD-FAIL", h.name, h.src, err[-700:].replace("\n", " | "), flush=True)
            else:
                print("ok", h.name, info.get("rc"), info.get("kind"), flush=True)
finally:
    ctx.cleanup()
print("build failures:", bad)
