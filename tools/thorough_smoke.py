#!/usr/bin/env python3
"""Development aid: runs every thorough-only harness of every registry once (deduplicated by name + defines) on the
current /repo tree and records status / wall time in .cache/thorough_smoke.json, so tiers and timeouts can be set from
measurements. Usage: thorough_smoke.py [--cap seconds] [--jobs n] [--props C01,C04] [--resume]"""
import os, sys, json, time, argparse, importlib.util
V = os.path.dirname(os.path.dirname(os.path.abspath(__file__)))
sys.path.insert(0, os.path.join(V, "lib"))
import vf
from concurrent.futures import ThreadPoolExecutor, as_completed


def load(pid):
    spec = importlib.util.spec_from_file_location("reg_" + pid, os.path.join(V, "registry", pid + ".py"))
    m = importlib.util.module_from_spec(spec); spec.loader.exec_module(m); return m


def main():
    ap = argparse.ArgumentParser()
    ap.add_argument("--cap", type=int, default=450)
    ap.add_argument("--jobs", type=int, default=12)
    ap.add_argument("--props", default=",".join("C%02d" % i for i in range(1, 21)))
    ap.add_argument("--resume", action="store_true")
    ap.add_argument("--only", default=None)
    ap.add_argument("--exclude", default=None)
    a = ap.parse_args()
    os.environ["VERIF_TIMEOUT_CAP"] = str(a.cap)
    vf.TIMEOUT_CAP = a.cap if hasattr(vf, "TIMEOUT_CAP") else None
    outp = os.path.join(V, ".cache", "thorough_smoke.json")
    done = json.load(open(outp)) if (a.resume and os.path.isfile(outp)) else {}
    hs = {}
    for pid in a.props.split(","):
        for h in load(pid).HARNESSES:
            if "quick" in h.tiers or "thorough" not in h.tiers:
                continue
            if a.only and not any(x in h.name for x in a.only.split(",")):
                continue
            if a.exclude and any(x in h.name for x in a.exclude.split(",")):
                continue
            key = h.name + "|" + h.src + "|" + json.dumps(h.defines, sort_keys=True)
            if key in done and done[key]["status"] != "error":
                continue
            hs.setdefault(key, (pid, h))
    print("harnesses to run:", len(hs), flush=True)
    known, fixed = vf.load_known_findings()
    ctx = vf.Ctx()
    try:
        order = sorted(hs.items(), key=lambda kv: -kv[1][1].timeout)
        with ThreadPoolExecutor(max_workers=a.jobs) as ex:
            futs = {ex.submit(vf.run_one, ctx, h, set(known.keys()), os.path.join("/var/tmp", "th_replays", pid)): (k, pid, h) for k, (pid, h) in order}
            for f in as_completed(futs):
                k, pid, h = futs[f]
                try:
                    r = f.result()
                    done[k] = {"pid": pid, "name": h.name, "status": r.status, "wall": round(r.wall, 1), "timeout": h.timeout,
                               "detail": r.detail[:300], "failed": [fe.get("description") for fe in r.failed][:3], "rss_kb": r.rss_kb}
                except Exception as e:
                    done[k] = {"pid": pid, "name": h.name, "status": "error", "wall": 0, "timeout": h.timeout, "detail": repr(e)[:300]}
                d = done[k]
                print("[%s] %s %-60s %6.1fs %s %s" % (d["status"], pid, h.name, d["wall"], d.get("failed") or "", d["detail"][:120] if d["status"] not in ("pass",) else ""), flush=True)
                with open(outp + ".tmp", "w") as fo:
                    json.dump(done, fo, indent=0)
                os.replace(outp + ".tmp", outp)
    finally:
        ctx.cleanup()


if __name__ == "__main__":
    main()
