/* C12 H5: WAVEX / RF64 channel maps. wavlike_gen_channel_mask (src/wavlike.c)
 * turns a channel map into the dwChannelMask the header stores; a reader
 * rebuilds the map from the mask bits in ascending order. For EVERY map of
 * 1..3 channels (entries symbolic): either the map is refused (mask 0) -
 * exactly when some entry has no mask bit or the bits are not strictly
 * ascending, i.e. the container cannot store it - or decoding the mask gives
 * back the same map (get returns what was set).
 */
#include "verif.h"
#include "wavlike.c"

#ifndef NCH
#define NCH 3
#endif

static int
bit_of (int id)
{	int k ;
	for (k = 0 ; k < (int) ARRAY_LEN (channel_mask_bits) ; k++)
		if (channel_mask_bits [k].id == id)
			return k ;
	return -1 ;
}

int
main (void)
{	int nd_map [NCH], back [NCH + 1] ;
	int mask, k, n, representable = 1, last = -1, expect = 0 ;

	ND_FILL (nd_map, NCH, int) ;
	for (k = 0 ; k < NCH ; k++)
	{	int b ;
		VASSUME (nd_map [k] >= 0 && nd_map [k] <= SF_CHANNEL_MAP_MAX) ;
		b = bit_of (nd_map [k]) ;
		if (b < 0 || b <= last)
			representable = 0 ;
		else
			expect |= 1 << b ;
		last = b ;
		} ;
	mask = wavlike_gen_channel_mask (nd_map, NCH) ;
	if (! representable)
		VASSERT (mask == 0, "a map the mask cannot represent (entry without a mask bit, or bits not ascending) is refused") ;
	else
	{	VASSERT (mask == expect, "mask = the bits of the map entries") ;
		/* the reader's rule (wavlike_read_fmt_chunk): ids of the set bits, in ascending bit order */
		for (n = 0, k = 0 ; k < (int) ARRAY_LEN (channel_mask_bits) && n < NCH ; k++)
			if (mask & (1 << k))
				back [n++] = channel_mask_bits [k].id ;
		VASSERT (n == NCH, "the mask has one bit per channel") ;
		for (k = 0 ; k < NCH ; k++)
			VASSERT (back [k] == nd_map [k], "decoding the mask gives the map that was set") ;
		} ;
	WITNESS_END () ;
	return 0 ;
}
