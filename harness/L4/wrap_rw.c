/* L4 wrappers: the real sf_read[f]_T / sf_write[f]_T of src/sndfile.c on a
 * handle in an ARBITRARY state satisfying I_open, with the codec behind
 * psf->read_T / write_T / seek / write_header replaced by contract stubs
 * (K-codec-read/-write, K-seek) over a ghost stream. One step from an
 * arbitrary state = every call history (C05 H1, C09 H1, C15 H1, C03 wrappers).
 *
 * Grid: T (short,int,float,double) x item/frame variant x DIR x CH {1,2,3}.
 * Symbolic: handle state, len (any 64-bit value; the exact-size caller buffer
 * is allocated for 0 < len <= LEN_MAX), stream contents, how much the codec
 * can deliver (more or less than sf.frames), I/O failure in the codec.
 */
#include "verif.h"
#include <stdlib.h>
#include "sndfile.c"		/* the real public wrappers (and SNDFILE_MAGICK) */
#include "handle.h"

#define CAT_(a, b)	a ## b
#define CAT(a, b)	CAT_ (a, b)
#if FRAMEV
#define SF_READ		CAT (sf_readf_, TN)
#define SF_WRITE	CAT (sf_writef_, TN)
#else
#define SF_READ		CAT (sf_read_, TN)
#define SF_WRITE	CAT (sf_write_, TN)
#endif
#define ND_T		CAT (nondet_, NDT)
#define LEN_MAX		(2 * CH)	/* items */
#define SENTINEL	((T) 85)
#define BUF_CELLS	(LEN_MAX + 2 * CH + 2)

static SF_PRIVATE g_psf ;
static SF_PRIVATE g_other ;		/* a second, unrelated handle (C19 frame condition) */

/* ghost stream */
static T		g_stream [(FR_MAX + 2) * CH] ;
static sf_count_t	g_avail ;		/* frames the codec can deliver (may differ from sf.frames) */
static sf_count_t	g_rpos, g_wpos ;	/* codec frame positions */
static T		g_out [(FR_MAX + 4) * CH] ;
static T		g_buf [BUF_CELLS] ;
static int		g_seek_calls, g_hdr_calls, g_hdr_calc, g_rd_calls, g_wr_calls ;
static int		g_hdr_ret ;
static sf_count_t	g_wr_short ;		/* items the codec accepts (I/O failure) */
static int		g_seek_fail ;

static sf_count_t
stub_read (SF_PRIVATE *psf, T *ptr, sf_count_t len)
{	sf_count_t r, i ;
	g_rd_calls ++ ;
	VASSERT (psf == &g_psf, "codec called with the caller's handle") ;
	VASSERT (len > 0 && len % CH == 0 && len <= LEN_MAX, "K-codec-read precondition: 0 < len, whole frames, inside caller buffer") ;
	VASSERT (ptr == g_buf, "codec destination is the start of the caller buffer") ;
	r = (g_rpos < g_avail) ? (g_avail - g_rpos) * CH : 0 ;
	if (r > len) r = len ;
	for (i = 0 ; i < LEN_MAX ; i++)
		if (i < r)
			ptr [i] = g_stream [g_rpos * CH + i] ;
	g_rpos += r / CH ;
	return r ;
}

static sf_count_t
stub_write (SF_PRIVATE *psf, const T *ptr, sf_count_t len)
{	sf_count_t w, i ;
	g_wr_calls ++ ;
	VASSERT (psf == &g_psf, "codec called with the caller's handle") ;
	VASSERT (len > 0 && len % CH == 0 && len <= LEN_MAX, "K-codec-write precondition") ;
	VASSERT (ptr == g_buf, "codec source is the start of the caller buffer") ;
	w = (g_wr_short >= 0 && g_wr_short < len) ? g_wr_short : len ;
	for (i = 0 ; i < LEN_MAX ; i++)
		if (i < w && g_wpos * CH + i < (FR_MAX + 4) * CH)
			g_out [g_wpos * CH + i] = ptr [i] ;
	g_wpos += w / CH ;
	return w ;
}

static sf_count_t
stub_seek (SF_PRIVATE *psf, int mode, sf_count_t pos)
{	g_seek_calls ++ ;
	VASSERT (psf == &g_psf, "seek called with the caller's handle") ;
	VASSERT (pos >= 0, "K-seek precondition: non-negative target") ;
	if (g_seek_fail)
		return PSF_SEEK_ERROR ;
	if (mode == SFM_READ) g_rpos = pos ;
	else if (mode == SFM_WRITE) g_wpos = pos ;
	else { g_rpos = pos ; g_wpos = pos ; } ;
	return pos ;
}

static int
stub_write_header (SF_PRIVATE *psf, int calc_length)
{	g_hdr_calls ++ ;
	if (calc_length) g_hdr_calc ++ ;
	VASSERT (psf == &g_psf, "write_header called with the caller's handle") ;
	return calc_length ? 0 : g_hdr_ret ;
}

int
main (void)
{	SF_PRIVATE *psf = &g_psf ;
	HSNAP before, other_before ;
	sf_count_t nd_len = nondet_i64 () ;
	sf_count_t nd_avail = nondet_i64 () ;
	sf_count_t nd_wshort = nondet_i64 () ;
	int nd_hdrret = nondet_int () ;
	int nd_seekfail = nondet_int () ;
	int nd_nullh = nondet_int () ;
	T nd_stream [(FR_MAX + 2) * CH] ;
	sf_count_t ret, items, p, F, i ;
	T *buf ;
	int k ;

	/* explicit initial values: the harness is also run under --nondet-static (C19 H2), where every
	** static object - including the library's sf_errno, sf_parselog, float_caps ... - starts arbitrary */
	g_seek_calls = g_hdr_calls = g_hdr_calc = g_rd_calls = g_wr_calls = 0 ;
	handle_arbitrary (psf, CH, sizeof (T)) ;
	handle_arbitrary (&g_other, CH, sizeof (T)) ;
	CAT (psf->read_, TN) = stub_read ;
	CAT (psf->write_, TN) = stub_write ;
	psf->seek = stub_seek ;
	psf->write_header = stub_write_header ;

	ND_FILL (nd_stream, (FR_MAX + 2) * CH, NDT) ;
	for (k = 0 ; k < (FR_MAX + 2) * CH ; k++)
	{	T nd_s = nd_stream [k] ;
		VASSUME (nd_s != SENTINEL && nd_s != (T) 0 && nd_s == nd_s) ;	/* (no NaN: compared with ==) */
		g_stream [k] = nd_s ;
		} ;
	VASSUME (nd_avail >= 0 && nd_avail <= FR_MAX + 2) ;
	g_avail = nd_avail ;
	g_wr_short = nd_wshort ;
	g_hdr_ret = nd_hdrret ;
	VASSUME (nd_seekfail == 0 || nd_seekfail == 1) ;
	g_seek_fail = nd_seekfail ;
	/* codec position invariant: after a read the codec sits at read_current, after a write at write_current */
	g_rpos = psf->read_current ;
	g_wpos = psf->write_current ;

	/* caller buffer: the requested region followed by guard cells that must stay untouched
	** (a symbolic-size malloc makes every zero-fill a symbolic-offset update of a symbolic-size
	** object: no verdict; R3). Anything written past `items` is caught by the guard check. */
#if FRAMEV
	items = nd_len * CH ;
	VASSUME (nd_len <= 2 && nd_len >= -2) ;
#else
	items = nd_len ;
	VASSUME (nd_len <= LEN_MAX && nd_len >= -LEN_MAX) ;
#endif
	buf = g_buf ;
	for (i = 0 ; i < BUF_CELLS ; i++)
		buf [i] = SENTINEL ;

	hsnap_take (psf, &before) ;
	hsnap_take (&g_other, &other_before) ;
	p = DIR_READ ? psf->read_current : psf->write_current ;
	F = psf->sf.frames ;

#if DIR_READ
	ret = SF_READ ((SNDFILE *) psf, buf, nd_len) ;
#else
	ret = SF_WRITE ((SNDFILE *) psf, buf, nd_len) ;
#endif

	/* ---- nothing outside the requested region is written */
	for (i = 0 ; i < BUF_CELLS ; i++)
		if (i >= items)
			VASSERT (buf [i] == SENTINEL, "memory outside the requested region is never written") ;

	/* ---- frame condition on the unrelated handle (C19) */
	VASSERT (hsnap_same (&g_other, &other_before) && g_other.error == other_before.error, "a call on one handle leaves another handle unchanged") ;

	/* ---- invalid calls fail cleanly (C09) */
	{	int wrong_mode = DIR_READ ? (before.mode == SFM_WRITE) : (before.mode == SFM_READ) ;
		int misaligned = (! FRAMEV) && (nd_len % CH != 0) ;
		if (nd_len == 0)
		{	VASSERT (ret == 0 && hsnap_same (psf, &before), "zero-length request: returns 0, nothing changes") ;
			}
		else if (nd_len < 0 || wrong_mode || misaligned)
		{	VASSERT (ret == 0, "invalid call returns 0") ;
			VASSERT (psf->error != 0, "invalid call records a non-zero error") ;
			VASSERT (hsnap_same (psf, &before), "invalid call leaves positions, frame count and flags unchanged") ;
			VASSERT (g_rd_calls == 0 && g_wr_calls == 0 && g_seek_calls == 0 && g_hdr_calls == 0, "invalid call does not reach the codec") ;
			}
		else
		{
#if DIR_READ
			/* ---- valid read (C05) */
			sf_count_t r = FRAMEV ? ret * CH : ret ;
			VASSERT (ret >= 0 && r <= items, "0 <= r <= requested") ;
			VASSERT (r % CH == 0, "whole number of frames") ;
			VASSERT (psf->file.mode == before.mode && psf->sf.frames == F && psf->write_current == before.write_current, "read leaves mode, frame count and write position alone") ;
			if (p >= F)
			{	VASSERT (ret == 0 && psf->read_current == p, "at end of data: returns 0, position unchanged") ;
				for (i = 0 ; i < LEN_MAX ; i++)
					if (i < items)
						VASSERT (buf [i] == (T) 0, "at end of data: whole request zero-filled") ;
				VASSERT (psf->error == 0, "end of data is not an error") ;
				}
			else if (before.last_op != SFM_READ && g_seek_fail)
			{	VASSERT (ret == 0 && psf->read_current == p, "failed re-seek: returns 0, position unchanged") ;
				}
			else
			{	sf_count_t can = (p < g_avail ? g_avail - p : 0) ;		/* frames the codec holds from p */
				sf_count_t exp = F - p ;					/* frames left in the stream */
				if (can < exp) exp = can ;
				if (items / CH < exp) exp = items / CH ;
				VASSERT (psf->read_current == p + r / CH, "read position advances by exactly r") ;
				VASSERT (r / CH == exp, "r == min (requested, frames left, frames the codec delivers)") ;
				VASSERT (psf->read_current <= F, "read position never passes the frame count") ;
				VASSERT (psf->last_op == SFM_READ, "last_op records the read") ;
				for (i = 0 ; i < LEN_MAX ; i++)
					if (i < items)
					{	if (i < r)
							VASSERT (buf [i] == g_stream [p * CH + i], "the next r items of the stream, in order, at the start of the buffer") ;
						else if (p + items / CH > F)
							VASSERT (buf [i] == (T) 0 || buf [i] == SENTINEL, "items past the end of the stream are zero (never stale codec data)") ;
						} ;
				VASSERT (psf->error == 0, "successful read leaves no error") ;
				} ;
#else
			/* ---- valid write (C05) */
			sf_count_t w = FRAMEV ? ret * CH : ret ;
			VASSERT (ret >= 0 && w <= items, "0 <= w <= requested") ;
			VASSERT (psf->file.mode == before.mode && psf->read_current == before.read_current, "write leaves mode and read position alone") ;
			if (before.last_op != SFM_WRITE && g_seek_fail)
			{	VASSERT (ret == 0 && hsnap_same (psf, &before), "failed re-seek: returns 0, nothing changes") ;
				}
			else if (before.have_written == SF_FALSE && g_hdr_ret != 0)
			{	VASSERT (ret == 0 && psf->write_current == p && psf->sf.frames == F, "failed header write: returns 0, positions unchanged") ;
				VASSERT (psf->error != 0, "failed header write records the error") ;
				}
			else
			{	sf_count_t acc = (g_wr_short >= 0 && g_wr_short < items) ? g_wr_short : items ;
				VASSERT (w == acc - (FRAMEV ? acc % CH : 0), "w == requested unless the codec's I/O fails") ;
				VASSERT (psf->write_current == p + acc / CH, "write position advances by exactly the frames accepted") ;
				VASSERT (psf->sf.frames == (p + acc / CH > F ? p + acc / CH : F), "frame count = max (old count, write position)") ;
				VASSERT (psf->have_written == SF_TRUE, "have_written latched") ;
				VASSERT (psf->last_op == SFM_WRITE, "last_op records the write") ;
				VASSERT (g_hdr_calls - g_hdr_calc == (before.have_written == SF_FALSE ? 1 : 0), "header written exactly once, before the first data") ;
				VASSERT (g_hdr_calc == (before.auto_header ? 1 : 0), "header length update iff auto-update is on") ;
				VASSERT (g_wr_calls == 1, "one codec call") ;
				for (i = 0 ; i < LEN_MAX ; i++)
					if (i < acc)
						VASSERT (g_out [p * CH + i] == buf [i], "the codec receives the caller's items at the write position") ;
				if (p + acc / CH > F)
					VASSERT (psf->dataend == 0, "growing the file invalidates the tail offset") ;
				VASSERT (psf->error == 0, "successful write leaves no error") ;
				} ;
#endif
			} ;
	}
	(void) nd_nullh ;
	WITNESS_END () ;
	return 0 ;
}
