from vf import H
import importlib.util, os
def _load(n):
    spec = importlib.util.spec_from_file_location("reg_%s_for_C09" % n, os.path.join(os.path.dirname(os.path.abspath(__file__)), n + ".py"))
    m = importlib.util.module_from_spec(spec); spec.loader.exec_module(m); return m

HARNESSES = []
_c = dict(link=["common"], stubs=["psf_log_printf"], include_env=("log_stub", "memfile", "snprintf_model"), timeout=300, checks="mem")
HARNESSES.append(H("errtab", "C10/tables.c", defines={"SEL_ERRTAB": 1, "SNP_MAX": 120}, unwind=230, unwindset=["snprintf.0:121", "snprintf.1:8"],
                   functions=["sf_error_number", "sf_strerror", "sf_error", "sf_error_str", "SndfileErrors[]"],
                   bounds="every error number 0..SFE_MAX_ERROR", **_c))
# invalid-call behaviour of the read/write/seek wrappers (the C09 obligations inside the L4 harnesses)
HARNESSES += [h for h in _load("C05").HARNESSES if h.name.startswith("wrap.") and (".ch2" in h.name or "_raw.ch1" in h.name and "probe" not in h.name)]
HARNESSES += [h for h in _load("C06").seek_harnesses()]
# sf_command on a NULL handle / with bad arguments touches nothing (the C09 obligations inside the command harness)
HARNESSES += [h for h in _load("C17").HARNESSES if h.name.startswith("cmd.SFC_SET") or h.name in ("cmd.SFC_UPDATE_HEADER_NOW", "cmd.SFC_FILE_TRUNCATE") or h.name.startswith("metarefuse.")]
# a failing open through the real entry points returns NULL, sets the global error, closes only what it owns
HARNESSES += [h for h in _load("C14").HARNESSES if h.name.startswith("open_entry.")]
# a write open with an unusable sample rate (0, negative) is refused, never a fault
HARNESSES += [h for h in _load("C10").HARNESSES if h.name.startswith("open_sr.")]
# Sound Designer II resource fork parser on arbitrary bytes
HARNESSES += _load("C16").sd2_harnesses()
META = {"assumptions": ["I_open"], "outside": ["failed sf_open leaves nothing behind: see C16"]}
