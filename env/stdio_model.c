/* E-stdio: ghost model of the C stream calls the ALAC encoder uses for its spool file
 * (psf_open_tmpfile -> fopen, fwrite, fseek, fread, fclose, remove). One ghost
 * stream; content is abstract (reads deliver nondeterministic bytes), length,
 * position, open count and existence of the named file are tracked:
 *   sm_open    number of streams currently open (every fopen must be matched by fclose)
 *   sm_exists  the temporary file exists on disk (created by fopen "w", gone after remove)
 * fopen may fail; fwrite may be short (disk full) - one choice per call.
 * CBMC only: native replay runs against the real libc and checks the same
 * obligations through access()/fstat. */
#if defined (VERIF_CBMC) || defined (__CPROVER__)
#include <stdio.h>
#include <string.h>
#include "verif.h"
#include "stdio_model.h"

SM_STATE sm ;
static char sm_file_obj [8] ;

FILE *
fopen (const char *path, const char *mode)
{	int nd_fopen_fail = nondet_int () ;
	(void) mode ;
	sm.n_fopen ++ ;
	if (nd_fopen_fail == 1)
		return NULL ;
	sm.open ++ ;
	sm.exists = 1 ;
	sm.len = 0 ; sm.pos = 0 ;
	sm.name0 = path [0] ;
	return (FILE *) sm_file_obj ;
}

size_t
fwrite (const void *ptr, size_t size, size_t n, FILE *f)
{	size_t nd_fw = nondet_u64 () ;
	(void) ptr ;
	VASSERT (f == (FILE *) sm_file_obj && sm.open > 0, "fwrite on an open stream") ;
	if (size == 0 || n == 0) return 0 ;
	if (nd_fw > n) nd_fw = n ;		/* short write: disk full */
#ifdef SM_RELIABLE
	nd_fw = n ;				/* (harnesses that are not about faults) */
#endif
	VASSERT (V_R_OK (ptr, size * nd_fw), "fwrite source readable") ;
	sm.pos += (long) (size * nd_fw) ;
	if (sm.pos > sm.len) sm.len = sm.pos ;
	return nd_fw ;
}

size_t
fread (void *ptr, size_t size, size_t n, FILE *f)
{	size_t avail, want = size * n, got, i ;
	unsigned char *dst = (unsigned char *) ptr ;
	VASSERT (f == (FILE *) sm_file_obj && sm.open > 0, "fread on an open stream") ;
	if (size == 0 || n == 0) return 0 ;
	avail = sm.pos < sm.len ? (size_t) (sm.len - sm.pos) : 0 ;
	got = want < avail ? want : avail ;
	VASSERT (V_W_OK (ptr, want), "fread destination writable for the whole request") ;
	for (i = 0 ; i < want && i < SM_MAXIO ; i++)
	{	unsigned char nd_fr = nondet_uchar () ;
		if (i >= got) break ;
		dst [i] = nd_fr ;
		} ;
	sm.pos += (long) got ;
	return got / size ;
}

int
fseek (FILE *f, long off, int whence)
{	VASSERT (f == (FILE *) sm_file_obj && sm.open > 0, "fseek on an open stream") ;
	if (whence == SEEK_SET) sm.pos = off ; else if (whence == SEEK_CUR) sm.pos += off ; else sm.pos = sm.len + off ;
	return 0 ;
}

int
fclose (FILE *f)
{	VASSERT (f == (FILE *) sm_file_obj && sm.open > 0, "fclose on an open stream (no double close)") ;
	sm.open -- ;
	sm.n_fclose ++ ;
	return 0 ;
}

int
remove (const char *path)
{	sm.n_remove ++ ;
	if (sm.exists && path [0] == sm.name0)
	{	sm.exists = 0 ;
		return 0 ;
		} ;
	return -1 ;
}

int access (const char *path, int mode) { (void) path ; (void) mode ; return 0 ; }
char *getenv (const char *name) { (void) name ; return NULL ; }
#endif
