#!/bin/bash
# kills background run_check.py runs and their solver processes (never the calling shell)
for p in $(pgrep -x python3); do
  if tr '\0' ' ' < /proc/$p/cmdline 2>/dev/null | grep -q "run_check.py\|thorough_smoke.py\|seed_matrix.py"; then kill -9 $p 2>/dev/null; fi
done
pkill -9 -x cbmc; pkill -9 -x kissat; rm -rf /var/tmp/verif.*
exit 0
