/* C12 H1 (in-memory half): the string table of a handle (src/strings.c:
 * psf_store_string / psf_set_string / psf_get_string). Two stores with
 * symbolic text (1..4 characters each) and types from the grid (a different
 * item, or the same item replaced), on a write handle whose container accepts
 * strings: each get returns exactly the last text stored for that type, the
 * other item is untouched, storage bookkeeping stays inside its block
 * (CBMC pointer checks on the realloc'ed storage), refused stores leave the
 * table unchanged.
 */
#include "verif.h"
#include <stdlib.h>
#include <string.h>
#include "strings.c"
#include "memfile.h"

#ifndef TYPE_A
#define TYPE_A SF_STR_TITLE
#endif
#ifndef TYPE_B
#define TYPE_B SF_STR_ARTIST
#endif

static SF_PRIVATE g_psf ;

static int
same (const char *a, const char *b)
{	int k ;
	for (k = 0 ; k < 6 ; k++)
	{	if (a [k] != b [k]) return 0 ;
		if (a [k] == 0) return 1 ;
		} ;
	return 1 ;
}

int
main (void)
{	SF_PRIVATE *psf = &g_psf ;
	char nd_a [6], nd_b [6] ;
	int nd_la = nondet_int (), nd_lb = nondet_int (), nd_written = nondet_int (), k, ra, rb ;
	const char *ga, *gb ;

	{	static const SF_PRIVATE zero_psf ;
		*psf = zero_psf ;
	}
	psf->file.mode = SFM_WRITE ;
	psf->strings.flags = SF_STR_ALLOW_START | SF_STR_ALLOW_END ;
	VASSUME (nd_written == 0 || nd_written == 1) ;
	psf->have_written = nd_written ;
	ND_FILL (nd_a, 6, schar) ; ND_FILL (nd_b, 6, schar) ;
	VASSUME (nd_la >= 1 && nd_la <= 4 && nd_lb >= 1 && nd_lb <= 4) ;
	for (k = 0 ; k < 6 ; k++)
	{	if (k >= nd_la) nd_a [k] = 0 ; else VASSUME (nd_a [k] != 0) ;
		if (k >= nd_lb) nd_b [k] = 0 ; else VASSUME (nd_b [k] != 0) ;
		} ;

	ra = psf_set_string (psf, TYPE_A, nd_a) ;
	VASSERT (ra == 0, "a string the container accepts is stored") ;
	ga = psf_get_string (psf, TYPE_A) ;
	VASSERT (ga != NULL && same (ga, nd_a), "get returns the text that was set") ;
	rb = psf_set_string (psf, TYPE_B, nd_b) ;
	VASSERT (rb == 0, "a second string is stored") ;
	gb = psf_get_string (psf, TYPE_B) ;
	VASSERT (gb != NULL && same (gb, nd_b), "get returns the latest text for its type") ;
	if (TYPE_A != TYPE_B)
	{	ga = psf_get_string (psf, TYPE_A) ;
		VASSERT (ga != NULL && same (ga, nd_a), "storing another item leaves the first one unchanged") ;
		} ;
	VASSERT (psf->strings.storage_used <= psf->strings.storage_len && V_OBJSIZE (psf->strings.storage) >= psf->strings.storage_len, "string storage bookkeeping inside its block") ;
	/* a type outside the enumeration is refused and changes nothing */
	{	size_t used = psf->strings.storage_used ;
		VASSERT (psf_set_string (psf, 0x7f, nd_a) != 0 && psf->strings.storage_used == used, "an unknown string type is refused, table unchanged") ;
	}
	WITNESS_END () ;
	return 0 ;
}
