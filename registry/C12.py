from vf import H
import importlib.util, os, copy
def _load(n):
    spec = importlib.util.spec_from_file_location("reg_%s_x" % n, os.path.join(os.path.dirname(os.path.abspath(__file__)), n + ".py"))
    m = importlib.util.module_from_spec(spec); spec.loader.exec_module(m); return m
HARNESSES = []
# H3: cue points and instrument/loop data, set -> real header writer -> real parser -> get (container round-trip harness + WITH_META)
for h in _load("C04").rt_harnesses(only=["wav.pcm16"]):
    if ".ch1.n1.sr44100" in h.name or ".ch2.n1.sr44100" in h.name or ".ch1.n0.sr44100" in h.name:
      for mbit, mname in ((1, "cues"), (2, "inst"), (4, "str")):
        g = copy.copy(h)
        g.name = h.name.replace("rt.", "meta.%s." % mname)
        if mbit == 4 and ".ch1.n1." not in h.name:
            continue
        g.defines = dict(h.defines); g.defines["WITH_META"] = mbit; g.defines["MF_CAP"] = 512; g.defines["MF_MAXIO"] = 512
        g.unwindset = tuple(x for x in h.unwindset if not x.startswith(("psf_fread.0", "psf_fwrite.0", "psf_binheader_writef.0"))) + ("psf_fread.0:513", "psf_fwrite.0:513", "psf_binheader_writef.0:514", "main.0:14", "main.1:14", "main.2:14", "main.3:14", "main.4:14", "main.5:14", "main.6:14", "strlen.0:70", "strcmp.0:70", "psf_store_string.0:40", "psf_store_string.1:40", "psf_get_string.0:40", "psf_location_string_count.0:34", "wavlike_write_strings.0:34", "psf_set_string.0:40")
        g.fsa = 600
        # value round trip only: CBMC's typed pointer check rejects every access to the variable-size SF_CUES
        # allocation (see vf.CUES_ARTEFACT) and would cut the paths behind it; memory safety of these routines is C03/C17
        g.checks = "assert"
        if mbit == 4:
            g.tiers = ("thorough",) ; g.timeout = 3000     # string table loops (32 entries) x LIST parser: > 5 min under load
        g.timeout = 600
        g.functions = tuple(h.functions) + ("sf_command(SFC_SET_CUE/SFC_SET_INSTRUMENT)", "psf_cues_dup", "wav_write_header cue/smpl blocks", "wav_read_header cue block", "wav_read_smpl_chunk")
        g.bounds = "2 cue points and 1 loop with symbolic field values, " + h.bounds
        HARNESSES.append(g)
# H4: setting metadata too late is refused (have_written latch of every write entry point) - C05 wrappers
HARNESSES += [h for h in _load("C05").HARNESSES if h.name.startswith("wrap.write") and ".ch1" in h.name]
# H5: WAVEX/RF64 channel map <-> channel mask
for nch in (1, 2, 3):
    HARNESSES.append(H("chanmask.ch%d" % nch, "C12/chanmask.c", link=["common"], stubs=["psf_log_printf"], defines={"NCH": nch, "MF_CAP": 16}, unwind=20, checks="mem",
                       include_env=("log_stub", "memfile"), timeout=300, functions=["wavlike_gen_channel_mask", "channel_mask_bits[]"],
                       bounds="every channel map of %d channel(s), entries 0..SF_CHANNEL_MAP_MAX" % nch))
# H1 (in-memory half): the handle's string table
for ta, tb, tag in (("SF_STR_TITLE", "SF_STR_ARTIST", "two"), ("SF_STR_COMMENT", "SF_STR_COMMENT", "replace"), ("SF_STR_DATE", "SF_STR_GENRE", "two2")):
    HARNESSES.append(H("strings.unit." + tag, "C12/strings_unit.c", link=["common"], stubs=["psf_log_printf"], defines={"TYPE_A": ta, "TYPE_B": tb, "MF_CAP": 16, "SNP_MAX": 40, "MEMCPY_MAX": 12},
                       unwind=8, unwindset=["strlen.0:8", "strstr.0:8", "strstr.1:12", "psf_store_string.0:34", "psf_get_string.0:34", "snprintf.0:41", "snprintf.1:41", "memcpy.0:13", "strncmp.0:12", "main.0:8", "main.1:8", "main.2:8"],
                       checks="mem", include_env=("log_stub", "memfile", "snprintf_model", "memcpy_model"), timeout=300,
                       functions=["psf_set_string", "psf_store_string", "psf_get_string"], bounds="two stores of 1..4 symbolic characters, types %s then %s, before or after the first write" % (ta, tb)))
META = {"assumptions": ["E-memfile"], "outside": ["strings, bext, cart, channel map round trips; AIFF/CAF/RF64 metadata (see DESIGN)"]}
