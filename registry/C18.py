from vf import H

HARNESSES = []
def calc_harnesses():
    out = []
    for cmd, allch in (("SFC_CALC_SIGNAL_MAX", 0), ("SFC_CALC_NORM_SIGNAL_MAX", 0), ("SFC_CALC_MAX_ALL_CHANNELS", 1), ("SFC_CALC_NORM_MAX_ALL_CHANNELS", 1)):
        for ch in (1, 2, 3):
            for probe in (0, 1):
                if probe and not (ch == 1 and cmd == "SFC_CALC_SIGNAL_MAX"):
                    continue
                d = {"CMD": cmd, "ALLCH": allch, "CH": ch, "FR_MAX": 4, "LIBSNDFILE_VERIF_BUFFER_LEN": 48, "MF_CAP": 16}
                if probe:
                    d["PROBE_calcrdwr"] = 1
                out.append(H("calc.%s.ch%d%s" % (cmd, ch, ".probe_calcrdwr" if probe else ""), "L4/calc.c", link=["common", "command"], stubs=["psf_log_printf"],
                             defines=d, unwind=14, checks="mem", include_env=("log_stub", "memfile"), timeout=300, kf=["calcrdwr"],
                             probe_for="calcrdwr" if probe else None,
                             functions=["sf_command", "psf_calc_signal_max", "psf_calc_max_all_channels"],
                             bounds="<= 4 frames, staging buffer 48 bytes (6 doubles: the scan loop crosses staging boundaries), every sample value, arbitrary I_open state in READ/RDWR mode; sf_read_double/sf_seek = their proved contracts"))
    return out
HARNESSES += calc_harnesses()
META = {"assumptions": ["contracts of sf_read_double / sf_seek as proved by C05/C06 wrapper harnesses"], "outside": ["streams longer than 4 frames", "NaN samples"]}
