/* E-log: psf_log_printf has an empty body (formatting is not the subject of
 * the harnesses that link this; the real function has its own harness in C03).
 * Linked units must have the real body removed (stubs=["psf_log_printf"]). */
#include "sfconfig.h"
#include "sndfile.h"
#include "common.h"
void
psf_log_printf (SF_PRIVATE *psf, const char *format, ...)
{	(void) psf ; (void) format ;
}
