from vf import H
import importlib.util, os, copy
def _load(n):
    spec = importlib.util.spec_from_file_location("reg_%s_x" % n, os.path.join(os.path.dirname(os.path.abspath(__file__)), n + ".py"))
    m = importlib.util.module_from_spec(spec); spec.loader.exec_module(m); return m
HARNESSES = []
# H1: frame condition across handles - every wrapper harness carries a second, unrelated handle whose state must not change
_w = [h for h in _load("C05").HARNESSES if h.name.startswith("wrap.") and "_raw" not in h.name and "probe" not in h.name]
HARNESSES += [h for h in _w if ".ch2" in h.name]
HARNESSES += _load("C06").seek_harnesses()
# H2: independence from earlier library use - the same harnesses with every static-lifetime object (sf_errno, sf_parselog,
# float_caps, tables that are not const ...) starting in an arbitrary state (cbmc --nondet-static)
for h in _w:
    if ".ch1" in h.name:
        g = copy.copy(h)
        g.name = h.name + ".nondet_static"
        g.nondet_static = True
        g.tiers = ("quick", "thorough") if ("_short" in h.name or "_float" in h.name) else ("thorough",)
        HARNESSES.append(g)
# descriptor isolation: a descriptor number the library already closed is never closed again (it may belong to another handle by then)
HARNESSES += [h for h in _load("C14").HARNESSES if h.name.startswith("fileio.ownership")]
HARNESSES += _load("blk_common").ms_harnesses(("SEL_INIT",))

META = {"assumptions": ["I_open", "E-posix"], "outside": ["more than two handles (pairwise + induction)", "threads"]}
