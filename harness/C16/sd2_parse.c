/* C03 / C16 / C09 for Sound Designer II (src/sd2.c): the real sd2_open in READ
 * mode - sd2_parse_rsrc_fork, parse_str_rsrc, the read_rsrc_* accessors - on
 * an ARBITRARY resource fork (every byte symbolic, length RLEN on the grid,
 * larger than the header cache so that the fork is read into its own heap
 * block), followed by the REAL psf_close, whatever sd2_open returned.
 * Obligations: no access outside the fork image (CBMC pointer checks on the
 * exact-size block), bounded loops, after sd2_open the handle is back on its
 * DATA descriptor and the resource descriptor has been closed exactly once,
 * psf_close closes the data descriptor once and never the resource
 * descriptor's number again, nothing is leaked (--memory-leak-check).
 */
#include "verif.h"
#include <stdlib.h>
#include <string.h>
#include "sndfile.c"
#include "sd2.c"
#include "memfile.h"

#ifndef RLEN
#define RLEN 48
#endif

static SF_PRIVATE g_static ;
static unsigned char g_hdr [32] ;

int
main (void)
{	SF_PRIVATE *psf = &g_static, *hp ;
	unsigned char nd_rsrc [RLEN] ;
	int rc, k ;

	ND_FILL (nd_rsrc, RLEN, uchar) ;
	for (k = 0 ; k < RLEN ; k++) mf [1].data [k] = nd_rsrc [k] ;
#ifdef HDR_FIXED
	/* consistent 16-byte fork header on the grid (data at 16, DLEN bytes; map behind it up to the end): the checks on it fold and the
	** symbolic part is the resource map itself - string offset, type count, type list, item list, strings (the fully symbolic fork
	** gave no verdict in 400 s) */
	{	static const unsigned char h [16] = { 0, 0, 0, 16, 0, 0, 0, 16 + DLEN, 0, 0, 0, DLEN, 0, 0, 0, RLEN - 16 - DLEN } ;
		for (k = 0 ; k < 16 ; k++) mf [1].data [k] = h [k] ;
	}
#endif
	mf [1].len = RLEN ; mf [1].len_min = RLEN ; mf [1].pos = 0 ;
	mf [0].len = 16 ; mf [0].pos = 0 ;
	{	static const SF_PRIVATE zero_psf ;
		*psf = zero_psf ;
		psf->header.ptr = g_hdr ; psf->header.len = sizeof (g_hdr) ;	/* smaller than the fork: sd2_parse_rsrc_fork allocates */
	}
	psf->Magick = SNDFILE_MAGICK ;
	psf->file.filedes = 0 ; psf->file.savedes = -1 ;
	psf->rsrc.filedes = 1 ;			/* psf_open_file has opened the ._name side-car */
	psf->rsrclength = RLEN ;
	psf->file.mode = SFM_READ ;
	psf->sf.format = SF_FORMAT_SD2 ;
	psf->sf.sections = 1 ; psf->sf.seekable = SF_TRUE ;
	psf->filelength = 16 ;

	rc = sd2_open (psf) ;
	VASSERT (rc >= 0 && rc <= SFE_MAX_ERROR, "sd2_open returns 0 or a defined error code") ;
	VASSERT (psf->file.filedes == 0, "after sd2_open the handle is back on its data descriptor") ;
	VASSERT (mf_rsrc_closes == 1 && mf_rsrc_closed_fd == 1 && psf->rsrc.filedes == -1, "the resource fork descriptor is closed exactly once by sd2_open") ;
	if (rc == 0 && validate_sfinfo (&psf->sf) && validate_psf (psf))
		VASSERT (psf->sf.channels >= 1 && psf->sf.samplerate >= 1 && psf->bytewidth >= 1 && psf->bytewidth <= 4, "an accepted SD2 file has sane parameters") ;

	hp = malloc (sizeof (SF_PRIVATE)) ;
	VASSUME (hp != NULL) ;
	*hp = *psf ;
	hp->header.ptr = malloc (16) ;
	rc = psf_close (hp) ;
	VASSERT (mf [0].n_close == 1 && mf [1].n_close == 0 && mf_rsrc_closes == 1, "close: the data descriptor once, the resource descriptor's number never again") ;
	WITNESS_END () ;
	return 0 ;
}
