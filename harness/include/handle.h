/* handle.h - building SF_PRIVATE handles directly (R1) in an arbitrary state
 * that satisfies the post-open invariant I_open, and snapshots of the state a
 * failing / pure call must leave unchanged. */
#ifndef HANDLE_H
#define HANDLE_H
#include "verif.h"

#ifndef FR_MAX
#define FR_MAX	4	/* frames in the ghost stream */
#endif

/* I_open: what psf_open_file + a codec init establish and every public call preserves. */
static void
handle_arbitrary (SF_PRIVATE *psf, int channels, int bytewidth)
{	int nd_mode = nondet_int () ;
	int nd_lastop = nondet_int () ;
	int nd_written = nondet_int () ;
	int nd_seekable = nondet_int () ;
	int nd_autohdr = nondet_int () ;
	int nd_err = nondet_int () ;
	sf_count_t nd_frames = nondet_i64 () ;
	sf_count_t nd_rcur = nondet_i64 () ;
	sf_count_t nd_wcur = nondet_i64 () ;

	psf->Magick = SNDFILE_MAGICK ;
	psf->virtual_io = SF_FALSE ;
	psf->file.filedes = 0 ;
	VASSUME (nd_mode == SFM_READ || nd_mode == SFM_WRITE || nd_mode == SFM_RDWR) ;
	psf->file.mode = nd_mode ;
	psf->sf.channels = channels ;
	psf->sf.samplerate = 44100 ;
	psf->sf.sections = 1 ;
	VASSUME (nd_seekable == SF_TRUE || nd_seekable == SF_FALSE) ;
	psf->sf.seekable = nd_seekable ;
	VASSUME (nd_frames >= 0 && nd_frames <= FR_MAX) ;
	psf->sf.frames = nd_frames ;
	VASSUME (nd_rcur >= 0 && nd_rcur <= nd_frames) ;
	VASSUME (nd_wcur >= 0 && nd_wcur <= nd_frames + 1) ;	/* sf_seek lets the write pointer pass the end */
	psf->read_current = (nd_mode == SFM_WRITE) ? 0 : nd_rcur ;
	psf->write_current = (nd_mode == SFM_READ) ? 0 : nd_wcur ;
	/* (psf_open_file leaves last_op = file.mode: on a freshly opened RDWR handle it is SFM_RDWR until the first read or write) */
	VASSUME (nd_lastop == SFM_READ || nd_lastop == SFM_WRITE || (nd_lastop == SFM_RDWR && nd_mode == SFM_RDWR)) ;
	psf->last_op = nd_lastop ;
	VASSUME (nd_written == SF_TRUE || nd_written == SF_FALSE) ;
	psf->have_written = nd_written ;
	VASSUME (nd_autohdr == SF_TRUE || nd_autohdr == SF_FALSE) ;
	psf->auto_header = nd_autohdr ;
	psf->error = nd_err ;		/* a previous call may have failed */
	psf->bytewidth = bytewidth ;
	psf->blockwidth = (sf_count_t) bytewidth * channels ;
	psf->norm_float = SF_TRUE ;
	psf->norm_double = SF_TRUE ;
	{	sf_count_t nd_dataend = nondet_i64 () ;
		sf_count_t nd_dataoffset = nondet_i64 () ;
		VASSUME (nd_dataoffset >= 0 && nd_dataoffset <= 4096) ;
		psf->dataoffset = nd_dataoffset ;
		psf->datalength = psf->sf.frames * psf->blockwidth ;
		/* a tailer (chunks after the audio) may or may not exist */
		VASSUME (nd_dataend == 0 || nd_dataend == psf->dataoffset + psf->datalength) ;
		psf->dataend = nd_dataend ;
		psf->filelength = psf->dataoffset + psf->datalength + (nd_dataend ? 8 : 0) ;
	}
}

typedef struct
{	int mode, last_op, have_written, error, auto_header, norm_float, norm_double, add_clipping, seekable, channels ;
	sf_count_t frames, read_current, write_current, dataend, datalength, dataoffset, filelength ;
	void *codec_data, *container_data ;
} HSNAP ;

static void
hsnap_take (const SF_PRIVATE *psf, HSNAP *s)
{	s->mode = psf->file.mode ; s->last_op = psf->last_op ; s->have_written = psf->have_written ;
	s->error = psf->error ; s->auto_header = psf->auto_header ; s->norm_float = psf->norm_float ;
	s->norm_double = psf->norm_double ; s->add_clipping = psf->add_clipping ; s->seekable = psf->sf.seekable ;
	s->channels = psf->sf.channels ;
	s->frames = psf->sf.frames ; s->read_current = psf->read_current ; s->write_current = psf->write_current ;
	s->dataend = psf->dataend ; s->datalength = psf->datalength ; s->dataoffset = psf->dataoffset ;
	s->filelength = psf->filelength ; s->codec_data = psf->codec_data ; s->container_data = psf->container_data ;
}

/* everything except the error field */
static int
hsnap_same (const SF_PRIVATE *psf, const HSNAP *s)
{	return s->mode == psf->file.mode && s->last_op == psf->last_op && s->have_written == psf->have_written
		&& s->auto_header == psf->auto_header && s->norm_float == psf->norm_float
		&& s->norm_double == psf->norm_double && s->add_clipping == psf->add_clipping && s->seekable == psf->sf.seekable
		&& s->channels == psf->sf.channels
		&& s->frames == psf->sf.frames && s->read_current == psf->read_current && s->write_current == psf->write_current
		&& s->dataend == psf->dataend && s->datalength == psf->datalength && s->dataoffset == psf->dataoffset
		&& s->filelength == psf->filelength && s->codec_data == psf->codec_data && s->container_data == psf->container_data ;
}
#endif
