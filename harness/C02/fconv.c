/* C02 H4/H5: the conversion kernels of the float and double file formats
 * (src/float32.c, src/double64.c: x2y_array, x2y_clip_array), one element,
 * symbolic finite sample, scale on the grid (1.0 = not normalised, 32767 /
 * 2147483647 = normalised reads, 1/32768 = normalised writes). Oracle: the
 * documented rule written out independently - scale in the file's floating
 * type, round to nearest-even with lrint (lrintf for the float format), clip
 * to the integer range first when clipping is on.
 */
#include "verif.h"
#include <float.h>
#include <limits.h>
#include FCONV_FILE

#ifndef SCALE
#define SCALE 1.0
#endif

int
main (void)
{
#if defined (IS_DOUBLE)
	double nd_x = nondet_double (), v ;
	double scale = SCALE ;
	VASSUME (nd_x == nd_x && nd_x <= DBL_MAX && nd_x >= -DBL_MAX) ;
	v = scale * nd_x ;
#if defined (FN_d2s)
	{	short out = 0 ;
		VASSUME (v < 1099511627776.0 && v > -1099511627776.0) ;
		d2s_array (&nd_x, 1, &out, scale) ;
		VASSERT (out == (short) lrint (v), "d2s: round to nearest of scale * x, narrowed") ;
	}
#elif defined (FN_d2s_clip)
	{	short out = 0 ;
		d2s_clip_array (&nd_x, 1, &out, scale) ;
		VASSERT (out == (v > 32767.0 ? SHRT_MAX : v < -32768.0 ? SHRT_MIN : (short) lrint (v)), "d2s with clipping: clamp to the short range, else round to nearest") ;
	}
#elif defined (FN_d2i)
	{	int out = 0 ;
		VASSUME (v <= 2147483647.0 && v >= -2147483648.0) ;
		d2i_array (&nd_x, 1, &out, scale) ;
		VASSERT (out == (int) lrint (v), "d2i: round to nearest of scale * x") ;
	}
#elif defined (FN_d2i_clip)
	{	int out = 0 ;
		d2i_clip_array (&nd_x, 1, &out, scale) ;
		VASSERT (out == (v > 2147483647.0 ? INT_MAX : v < -2147483647.0 ? INT_MIN : (int) lrint (v)), "d2i with clipping: clamp to the int range, else round to nearest (in double precision)") ;
	}
#elif defined (FN_d2f)
	{	float out = 0 ;
		d2f_array (&nd_x, 1, &out) ;
		VASSERT (out == (float) nd_x, "d2f: plain narrowing") ;
	}
#elif defined (FN_s2d)
	{	short nd_s = nondet_short () ; double out = 0 ;
		s2d_array (&nd_s, &out, 1, scale) ;
		VASSERT (out == scale * (double) nd_s, "s2d: scale * sample") ;
	}
#elif defined (FN_i2d)
	{	int nd_i = nondet_int () ; double out = 0 ;
		i2d_array (&nd_i, &out, 1, scale) ;
		VASSERT (out == scale * (double) nd_i, "i2d: scale * sample") ;
	}
#elif defined (FN_f2d)
	{	float nd_f = nondet_float () ; double out = 0 ;
		VASSUME (nd_f == nd_f) ;
		f2d_array (&nd_f, &out, 1) ;
		VASSERT (out == (double) nd_f, "f2d: exact widening") ;
	}
#else
#error "FN"
#endif
#else	/* float32.c */
	float nd_x = nondet_float (), v ;
	float scale = (float) SCALE ;
	VASSUME (nd_x == nd_x && nd_x <= FLT_MAX && nd_x >= -FLT_MAX) ;
	v = scale * nd_x ;
#if defined (FN_f2s)
	{	short out = 0 ;
		VASSUME (v < 1099511627776.0f && v > -1099511627776.0f) ;
		f2s_array (&nd_x, 1, &out, scale) ;
		VASSERT (out == (short) lrintf (v), "f2s: round to nearest of scale * x, narrowed") ;
	}
#elif defined (FN_f2s_clip)
	{	short out = 0 ;
		f2s_clip_array (&nd_x, 1, &out, scale) ;
		VASSERT (out == (v > 32767.0f ? SHRT_MAX : v < -32768.0f ? SHRT_MIN : (short) lrintf (v)), "f2s with clipping: clamp to the short range, else round to nearest") ;
	}
#elif defined (FN_f2i)
	{	int out = 0 ;
		VASSUME (v < 2147483648.0f && v >= -2147483648.0f) ;
		f2i_array (&nd_x, 1, &out, scale) ;
		VASSERT (out == (int) lrintf (v), "f2i: round to nearest of scale * x") ;
	}
#elif defined (FN_f2i_clip)
	{	int out = 0 ;
		f2i_clip_array (&nd_x, 1, &out, scale) ;
		VASSERT (out == (v >= 2147483648.0f ? INT_MAX : v < -2147483648.0f ? INT_MIN : (int) lrintf (v)), "f2i with clipping: clamp to the int range, else round to nearest") ;
	}
#elif defined (FN_f2d)
	{	double out = 0 ;
		f2d_array (&nd_x, 1, &out) ;
		VASSERT (out == (double) nd_x, "f2d: exact widening") ;
	}
#elif defined (FN_s2f)
	{	short nd_s = nondet_short () ; float out = 0 ;
		s2f_array (&nd_s, &out, 1, scale) ;
		VASSERT (out == scale * (float) nd_s, "s2f: scale * sample") ;
	}
#elif defined (FN_i2f)
	{	int nd_i = nondet_int () ; float out = 0 ;
		i2f_array (&nd_i, &out, 1, scale) ;
		VASSERT (out == scale * (float) nd_i, "i2f: scale * sample (in float)") ;
	}
#elif defined (FN_d2f)
	{	double nd_d = nondet_double () ; float out = 0 ;
		VASSUME (nd_d == nd_d) ;
		d2f_array (&nd_d, &out, 1) ;
		VASSERT (out == (float) nd_d, "d2f: plain narrowing") ;
	}
#else
#error "FN"
#endif
#endif
	WITNESS_END () ;
	return 0 ;
}
