/* C13 H1-H3: src/chunk.c - growth of the custom-chunk tables and the iterator.
 *  SEL_WGROW  : arbitrary WRITE_CHUNKS table satisfying the representation invariant
 *               (count = allocation size, used <= count) -> one real psf_save_write_chunk
 *               -> invariant re-established, entry stored (inductive: any number of chunks)
 *  SEL_RGROW  : the same for psf_store_read_chunk_u32 / _str
 *  SEL_WSEQ   : NCALLS real calls from the empty table (bounded cross-check, crosses 20 and 31)
 *  SEL_ITER   : iterator functions over an arbitrary table of <= NENT entries
 */
#include "verif.h"
#include <stdlib.h>
#include <string.h>
#include "chunk.c"

#ifndef NENT
#define NENT 5
#endif

int
main (void)
{
#if defined (SEL_WGROW)
	WRITE_CHUNKS w ;
	SF_CHUNK_INFO ci ;
	unsigned char payload [8] ;
	uint32_t nd_used = nondet_uint () ;
	unsigned nd_datalen = nondet_uint () ;
	uint32_t old_used ;
	int rc, k ;
	char nd_id [6] ;

	/* representation invariant of a table that earlier calls produced */
	w.count = COUNT0 ;
	VASSUME (nd_used <= COUNT0) ;
	w.used = nd_used ;
	w.chunks = COUNT0 ? calloc (COUNT0, sizeof (WRITE_CHUNK)) : NULL ;
	VASSUME (COUNT0 == 0 || w.chunks != NULL) ;

	memset (&ci, 0, sizeof (ci)) ;
	ND_FILL (nd_id, 6, schar) ;
	for (k = 0 ; k < 6 ; k++) ci.id [k] = nd_id [k] ;
	ci.id [6] = 0 ;
	ci.id_size = 4 ;
	VASSUME (nd_datalen <= 8) ;
	ci.datalen = nd_datalen ;
	ci.data = payload ;
	old_used = w.used ;

	rc = psf_save_write_chunk (&w, &ci) ;

	VASSERT (rc == SFE_NO_ERROR, "chunk accepted") ;
	VASSERT (w.used == (COUNT0 == 0 ? 1 : old_used + 1), "exactly one entry added") ;
	VASSERT (w.used <= w.count, "invariant: used <= count (capacity recorded after growth)") ;
	VASSERT (w.count >= COUNT0 && w.count >= 20, "capacity never shrinks") ;
	VASSERT (V_OBJSIZE (w.chunks) == w.count * sizeof (WRITE_CHUNK), "invariant: count is the allocated capacity") ;
	VASSERT (w.chunks [w.used - 1].len == ((nd_datalen + 3) & ~3u), "stored length padded to 4") ;
	VASSERT (w.chunks [w.used - 1].data != NULL, "payload copied") ;
#elif defined (SEL_RGROW)
	READ_CHUNKS r ;
	uint32_t nd_used = nondet_uint () ;
	uint32_t nd_marker = nondet_uint () ;
	uint32_t nd_len = nondet_uint () ;
	sf_count_t nd_off = nondet_i64 () ;
	uint32_t old_used ;
	int rc ;

	r.count = COUNT0 ;
	VASSUME (nd_used <= COUNT0) ;
	r.used = nd_used ;
	r.chunks = COUNT0 ? calloc (COUNT0, sizeof (READ_CHUNK)) : NULL ;
	VASSUME (COUNT0 == 0 || r.chunks != NULL) ;
	old_used = r.used ;

	rc = psf_store_read_chunk_u32 (&r, nd_marker, nd_off, nd_len) ;

	VASSERT (rc == SFE_NO_ERROR, "chunk recorded") ;
	VASSERT (r.used == (COUNT0 == 0 ? 1 : old_used + 1), "exactly one entry added") ;
	VASSERT (r.used <= r.count, "invariant: used <= count (capacity recorded after growth)") ;
	VASSERT (V_OBJSIZE (r.chunks) == r.count * sizeof (READ_CHUNK), "invariant: count is the allocated capacity") ;
	VASSERT (r.chunks [r.used - 1].mark32 == nd_marker && r.chunks [r.used - 1].len == nd_len && r.chunks [r.used - 1].offset == nd_off, "entry stored as given") ;
	VASSERT (psf_find_read_chunk_m32 (&r, nd_marker) >= 0, "stored chunk is found by marker") ;
#elif defined (SEL_WSEQ)
	WRITE_CHUNKS w ;
	READ_CHUNKS r ;
	SF_CHUNK_INFO ci ;
	unsigned char payload [4] = { 1, 2, 3, 4 } ;
	int k ;
	memset (&w, 0, sizeof (w)) ;
	memset (&r, 0, sizeof (r)) ;
	memset (&ci, 0, sizeof (ci)) ;
	ci.id [0] = 'a' ; ci.id [1] = 'b' ; ci.id [2] = 'c' ; ci.id [3] = 'd' ;
	ci.id_size = 4 ;
	ci.datalen = 4 ;
	ci.data = payload ;
	for (k = 0 ; k < NCALLS ; k++)
	{	int rc = psf_save_write_chunk (&w, &ci) ;
		VASSERT (rc == SFE_NO_ERROR, "every set_chunk accepted") ;
		VASSERT (w.used == (uint32_t) k + 1 && w.used <= w.count, "used tracks the calls and stays within capacity") ;
		rc = psf_store_read_chunk_u32 (&r, 0x64636261u + k, 100 + k, 4) ;
		VASSERT (rc == SFE_NO_ERROR, "every chunk seen by the parser is recorded") ;
		VASSERT (r.used == (uint32_t) k + 1 && r.used <= r.count, "read table: used tracks the calls and stays within capacity") ;
		} ;
	for (k = 0 ; k < NCALLS ; k++)
	{	VASSERT (r.chunks [k].mark32 == 0x64636261u + k, "all recorded chunks retrievable, in order") ;
		VASSERT (w.chunks [k].len == 4 && w.chunks [k].data != NULL, "all set chunks kept") ;
		} ;
#elif defined (SEL_ITER)
	static SF_PRIVATE psf ;
	READ_CHUNK tab [NENT] ;
	uint32_t nd_n = nondet_uint () ;
	uint64_t nd_hash [NENT] ;
	int nd_byid = nondet_int () ;
	int nd_abandon = nondet_int () ;
	char id [5] = { 'w', 'x', 'y', 'z', 0 } ;
	uint32_t want ;
	SF_CHUNK_ITERATOR *it ;
	int k, visited [NENT], nvis = 0, expect = 0 ;

	memcpy (&want, id, 4) ;
	ND_FILL (nd_hash, NENT, u64) ;
	VASSUME (nd_n <= NENT) ;
	memset (tab, 0, sizeof (tab)) ;
	for (k = 0 ; k < NENT ; k++)
	{	tab [k].hash = nd_hash [k] ;		/* incl. duplicates and entries equal to the wanted id */
		VASSUME (nd_hash [k] != 0) ;
		visited [k] = 0 ;
		} ;
	psf.rchunks.chunks = tab ;
	psf.rchunks.count = NENT ;
	psf.rchunks.used = nd_n ;

	if (nd_abandon)
	{	/* an earlier by-id iteration that the caller abandoned half way */
		it = psf_get_chunk_iterator (&psf, id) ;
		(void) it ;
		} ;
	it = psf_get_chunk_iterator (&psf, nd_byid ? id : NULL) ;
	for (k = 0 ; k < NENT ; k++)
		if ((uint32_t) k < nd_n && (! nd_byid || tab [k].hash == want))
			expect ++ ;
	if (expect == 0)
		VASSERT (it == NULL, "no matching chunk: no iterator") ;
	for (k = 0 ; k < NENT + 1 ; k++)
	{	int idx ;
		if (it == NULL)
			break ;
		idx = psf_find_read_chunk_iterator (&psf.rchunks, it) ;
		VASSERT (idx >= 0 && (uint32_t) idx < nd_n, "iterator designates a stored chunk") ;
		VASSERT (! nd_byid || tab [idx].hash == want, "by-id iteration visits only matching chunks") ;
		VASSERT (visited [idx] == 0, "no chunk visited twice") ;
		visited [idx] = 1 ;
		nvis ++ ;
		it = psf_next_chunk_iterator (&psf.rchunks, it) ;
		} ;
	VASSERT (it == NULL, "iteration terminates: next after last returns NULL") ;
	VASSERT (nvis == expect, "iteration visits every (matching) stored chunk exactly once") ;
#else
#error "select"
#endif
	WITNESS_END () ;
	return 0 ;
}
