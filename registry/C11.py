from vf import H
import importlib.util, os
def _load(n):
    spec = importlib.util.spec_from_file_location("reg_%s_x" % n, os.path.join(os.path.dirname(os.path.abspath(__file__)), n + ".py"))
    m = importlib.util.module_from_spec(spec); spec.loader.exec_module(m); return m
# C11 H1/H2: the same container machinery with the crash point right after the header update
# (write_header (calc_length = TRUE), which is what SFC_UPDATE_HEADER_NOW and the auto-update tail of sf_write_T call)
HARNESSES = [h for h in _load("C04").rt_harnesses(update_now=True) if h.probe_for in (None, "vocupd")]
# ... and with the write pointer seeked back to frame 0 at the moment of the update (the header must still describe N frames)
import copy
for h in list(HARNESSES):
    if h.probe_for is None and (".ch1.n3" in h.name or ".ch2.n1" in h.name) and "quick" in h.tiers or (h.probe_for is None and ".ch1.n3" in h.name and h.name.split(".")[2] in ("wav", "aiff", "au", "w64", "voc", "svx", "mat4", "avr", "htk", "mpc2k")):
        g = copy.copy(h)
        g.name = h.name + ".wptr0"
        g.defines = dict(h.defines); g.defines["WPTR_BACK"] = 1
        g.tiers = ("quick", "thorough") if h.name.split(".")[2] not in ("caf", "nist", "paf", "ircam", "mat5", "pvf", "wavex", "rf64") else ("thorough",)
        HARNESSES.append(g)
# writer-side frame condition (file position restored, length kept) for the containers whose read-back does not finish
# within budget: the same harness, stopped after the header update
for h in _load("C04").rt_harnesses(update_now=True, only=["wavex", "rf64"]):    # (caf, nist, paf, mat5, pvf, ircam: no verdict in 300 s even writer-side)
    if ".ch1.n3" in h.name or (".ch1.n1" in h.name and "sr" not in h.name.split(".n1")[-1].replace(".sr44100", "")):
        for back in (0, 1):
            g = copy.copy(h)
            g.name = h.name.replace("rt.upd.", "hdrupd.") + (".wptr0" if back else "")
            g.defines = dict(h.defines); g.defines["WRITE_ONLY"] = 1
            if back: g.defines["WPTR_BACK"] = 1
            g.tiers = ("quick", "thorough")
            g.timeout = 300
            g.probe_for = None
            g.bounds = "writer side only (header update: position restored, length kept); " + h.bounds
            HARNESSES.append(g)
# the wrappers' part: header rewritten after every write iff auto-update is on, frame count/dataend bookkeeping (C05 wrappers)
HARNESSES += [h for h in _load("C05").HARNESSES if h.name.startswith("wrap.write") and ".ch2" in h.name]
HARNESSES += _load("blk_common").sds_harnesses(("SEL_HEADER",))
# the command layer: SFC_UPDATE_HEADER_NOW always asks the container for a full recalculation
HARNESSES += [h for h in _load("C17").HARNESSES if h.name == "cmd.SFC_UPDATE_HEADER_NOW"]

META = {"assumptions": ["crash image = memory-file content at the instant the update returns"],
        "outside": ["the audio prefix itself (C01 codec identity)", "block codecs", "OS-level write ordering"]}
