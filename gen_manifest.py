#!/usr/bin/env python3
"""Regenerates MANIFEST.json from registry/*.py (META) - keeps it valid at all times."""
import os, sys, json, importlib.util
V = os.path.dirname(os.path.abspath(__file__))
sys.path.insert(0, os.path.join(V, "lib"))
props = [json.loads(l) for l in open(os.path.join(V, "properties.jsonl"))]
checks, na = [], []
for p in props:
    pid = p["id"]
    path = os.path.join(V, "registry", pid + ".py")
    meta = None
    if os.path.isfile(path):
        spec = importlib.util.spec_from_file_location("reg_" + pid, path)
        mod = importlib.util.module_from_spec(spec)
        spec.loader.exec_module(mod)
        meta = getattr(mod, "META", {})
        if not getattr(mod, "HARNESSES", []) or meta.get("not_applicable"):
            meta = None if not meta or not meta.get("not_applicable") else meta
    if meta is None or meta.get("not_applicable"):
        na.append({"property_id": pid, "reason": (meta or {}).get("not_applicable", "no solver-based check registered yet (work in progress; see DESIGN.md)")})
        continue
    checks.append({
        "property_id": pid,
        "quick_cmd": "python3 run_check.py %s --tier quick" % pid,
        "thorough_cmd": "python3 run_check.py %s --tier thorough" % pid,
        "evidence_file": "evidence/%s.json" % pid,
        "replay_cmd_template": "python3 run_check.py %s --replay {path}" % pid,
        "engine": "cbmc",
        "level_claimed": {"category": "model_checking",
                          "text": meta.get("level_text", "bounded symbolic execution of the real C functions with CBMC; every symbolic input inside the stated bounds is covered by the solver verdict"),
                          "design_ref": meta.get("design_ref", "DESIGN.md section 4, " + pid)},
        "level_note": meta.get("level_note", "trusts CBMC 6.11 and its SAT back ends, the environment models in /verif/env and the harness preconditions; bounds per harness are listed in the evidence file"),
        "technique": meta.get("technique", "bounded model checking of the real C sources (CBMC, SAT), unit harnesses with symbolic inputs, unwinding assertions, native replay of counterexamples"),
    })
man = {
    "version": 1,
    "setup_cmd": "python3 setup.py",
    "hooks": {"guard": "LIBSNDFILE_VERIF", "enable": "four guarded hooks, all off in a normal build: -DLIBSNDFILE_VERIF_MAX_HEADER=<n> (src/common.c: lower ceiling for the header cache, so that the 'growth refused' state is reachable inside the bound), -DLIBSNDFILE_VERIF_ALAC_BYTE_BUFFER_SIZE=<n> (src/alac.c: smaller ALAC packet buffer, the 1 MB block does not fit the solver), -DLIBSNDFILE_VERIF_BUFFER_LEN=<n> (src/common.h: overrides SF_BUFFER_LEN so the codec staging loops have a small stated chunk size) and -DLIBSNDFILE_VERIF_PROMOTE_VARARGS=1 (src/common.h BHW1/BHW2: spell out the default argument promotion that CBMC 6.11 does not apply to variadic calls; value-preserving). lib/vf.py passes them to goto-cc together with -DLIBSNDFILE_VERIF=1; harnesses otherwise #include the real src/*.c files to reach static functions",
              "baseline_off_cmd": "cmake -G Ninja -S /repo -B /repo/_build > /dev/null && cmake --build /repo/_build -j16 > /dev/null && ctest --test-dir /repo/_build -j8 --timeout 900",
              "source_commits": ["3619295", "9053d3b", "5c8ebb0", "2417f5c"], "add_only": True},
    "engines": [{"name": "cbmc", "path": "/verif/run_check.py", "serves_properties": [c["property_id"] for c in checks],
                 "kind_free_text": "CBMC 6.11 bounded model checker over goto-cc builds of /repo/src (regenerated on every run); SAT back ends minisat/cadical/kissat; native ASan/UBSan replay of counterexamples"}],
    "checks": checks,
    "not_applicable": na,
    "notes": "All checks are solver-based (CBMC). See DESIGN.md. known_findings.txt lists fixed defects and recorded findings.",
}
json.dump(man, open(os.path.join(V, "MANIFEST.json"), "w"), indent=1)
print("checks:", [c["property_id"] for c in checks], "na:", [n["property_id"] for n in na])
