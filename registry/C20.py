from vf import H

HARNESSES = []
_fn = ["ulaw2s_array", "ulaw2i_array", "alaw2s_array", "alaw2i_array", "s2ulaw_array", "s2alaw_array",
       "i2ulaw_array", "i2alaw_array", "ulaw_decode[]", "ulaw_encode[]", "alaw_decode[]", "alaw_encode[]"]
for sel, un in (("H_DECODE", 3), ("H_ENCODE_S", 3), ("H_ENCODE_I", 3), ("H_IDENT", 3), ("H_STRIDE", 5)):
    HARNESSES.append(H("g711." + sel, "C20/g711.c", link=[], defines={sel: 1}, unwind=un, checks="arith",
                       include_env=(), functions=_fn,
                       bounds="all 256 codes / all 2^16 shorts / all 2^32 ints symbolic; count 1 (3 in H_STRIDE)"))

META = {
    "assumptions": [],
    "outside": [],
}
