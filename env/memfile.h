#ifndef MEMFILE_H
#define MEMFILE_H
#ifndef MF_CAP
#define MF_CAP		64
#endif
#ifndef MF_NFILES
#define MF_NFILES	2
#endif
#ifndef MF_MAXIO
#define MF_MAXIO	MF_CAP
#endif
typedef struct
{	unsigned char	data [MF_CAP] ;
	sf_count_t	len, pos ;
	int		n_read, n_write, n_seek, n_trunc, n_close ;
} MEMFILE ;
extern MEMFILE mf [MF_NFILES] ;
#endif
