/* E-libc: contract model of snprintf (CBMC's built-in model writes nothing).
 * Writes at most `size` bytes, NUL-terminates iff size >= 1, returns the
 * untruncated length. For the format "%s" the argument string is copied; any
 * other format yields nondet printable bytes of nondet length < SNP_MAX.
 * Loops are bounded by SNP_MAX (harness bound on the produced text). */
#include <stdarg.h>
#include <stddef.h>
#include "verif.h"
#ifndef SNP_MAX
#define SNP_MAX 24
#endif
int
snprintf (char *str, size_t size, const char *fmt, ...)
{	va_list ap ;
	size_t n = 0, i ;
	const char *src = NULL ;
	va_start (ap, fmt) ;
	if (fmt [0] == '%' && fmt [1] == 's' && fmt [2] == 0)
		src = va_arg (ap, const char *) ;
	va_end (ap) ;
	if (src != NULL)
	{	for (n = 0 ; n < SNP_MAX ; n++)
			if (src [n] == 0)
				break ;
		VASSERT (n < SNP_MAX, "snprintf model: source text shorter than SNP_MAX (harness bound)") ;
		}
	else
	{	unsigned char nd_fmtlen = nondet_uchar () ;
		n = nd_fmtlen % SNP_MAX ;
		} ;
	if (size > 0)
	{	VASSERT (V_W_OK (str, size < n + 1 ? size : n + 1), "snprintf: destination writable for min (size, len + 1) bytes") ;
		for (i = 0 ; i < SNP_MAX ; i++)
		{	if (i >= n || i >= size - 1)
				break ;
			str [i] = src ? src [i] : 'x' ;
			} ;
		str [i] = 0 ;
		} ;
	return (int) n ;
}
