/* replay_rt.c - native replay runtime (see verif.h). Replay file
 * ($VERIF_REPLAY_VALUES): one value per line:
 *     <basename-of-file> <line> <width> <hex> <lhs>
 * Scalars are matched by (file, line) in FIFO order, ND_FILL elements by lhs.
 */
#if ! defined (__CPROVER__) && ! defined (VERIF_CBMC)
#include <stdio.h>
#include <stdlib.h>
#include <string.h>
#include <stdint.h>
#include <unistd.h>

typedef struct { char file [64] ; int line, width, used ; uint64_t bits ; char lhs [96] ; } VF_ENT ;
static VF_ENT *vf_q ;
static int vf_n, vf_loaded ;

static const char *
vf_base (const char *p)
{	const char *s = strrchr (p, '/') ;
	return s ? s + 1 : p ;
}

static void
vf_load (void)
{	const char *path = getenv ("VERIF_REPLAY_VALUES") ;
	FILE *f ;
	int cap = 0 ;
	char file [256], lhs [256] ;
	int line, width ;
	unsigned long long bits ;
	vf_loaded = 1 ;
	if (path == NULL || (f = fopen (path, "r")) == NULL)
		return ;
	while (fscanf (f, "%255s %d %d %llx %255s", file, &line, &width, &bits, lhs) == 5)
	{	if (vf_n >= cap)
		{	cap = cap ? 2 * cap : 256 ;
			vf_q = realloc (vf_q, cap * sizeof (*vf_q)) ;
			} ;
		memset (&vf_q [vf_n], 0, sizeof (VF_ENT)) ;
		strncpy (vf_q [vf_n].file, vf_base (file), 63) ;
		strncpy (vf_q [vf_n].lhs, lhs, 95) ;
		vf_q [vf_n].line = line ; vf_q [vf_n].width = width ; vf_q [vf_n].bits = bits ;
		vf_n ++ ;
		} ;
	fclose (f) ;
}

uint64_t
vf_nd (const char *file, int line, int width)
{	int k ;
	const char *b = vf_base (file) ;
	if (! vf_loaded) vf_load () ;
	for (k = 0 ; k < vf_n ; k++)
		if (! vf_q [k].used && vf_q [k].line == line && vf_q [k].width == width && strcmp (vf_q [k].file, b) == 0 && strchr (vf_q [k].lhs, '[') == NULL)
		{	vf_q [k].used = 1 ;
			return vf_q [k].bits ;
			} ;
	return 0 ;	/* the solver did not care */
}

uint64_t
vf_nd_elem (const char *name, int idx, int width)
{	int k ;
	char a [128], b [128] ;
	if (! vf_loaded) vf_load () ;
	snprintf (a, sizeof (a), "%s[%dl]", name, idx) ;
	snprintf (b, sizeof (b), "%s[%d]", name, idx) ;
	for (k = 0 ; k < vf_n ; k++)
		if (! vf_q [k].used && vf_q [k].width == width && (strcmp (vf_q [k].lhs, a) == 0 || strcmp (vf_q [k].lhs, b) == 0))
		{	vf_q [k].used = 1 ;
			return vf_q [k].bits ;
			} ;
	return 0 ;
}

float	vf_bits2f (uint64_t b)	{ uint32_t u = (uint32_t) b ; float f ; memcpy (&f, &u, 4) ; return f ; }
double	vf_bits2d (uint64_t b)	{ double d ; memcpy (&d, &b, 8) ; return d ; }

void
vf_fail (const char *msg, const char *file, int line)
{	if (strstr (msg, "(harness bound)") != NULL)
	{	/* a stated bound of an environment model, not an obligation on the library */
		fprintf (stderr, "REPLAY-BOUND: %s (%s:%d)\n", msg, file, line) ;
		return ;
		} ;
	fprintf (stderr, "REPLAY-FAIL: %s (%s:%d)\n", msg, file, line) ;
	fflush (NULL) ;
	_exit (77) ;
}

/* A false assumption in replay normally concerns a value the solver sliced away as irrelevant
** (it reads as 0 here). Execution continues; run_check.py then only accepts an assertion
** failure that carries the same text as the solver's counterexample. */
void
vf_assume_fail (const char *cond, const char *file, int line)
{	fprintf (stderr, "REPLAY-ASSUME-FALSE: %s (%s:%d)\n", cond, file, line) ;
}
#endif
