/* C16 H4 / C15 H6 / C09 H3: the ALAC encoder's spool file. Real alac_init ->
 * alac_writer_init -> psf_open_tmpfile (src/alac.c, src/common.c), then the
 * handle is put into an ARBITRARY state a write history can leave
 * (0..2 packets already spooled, 0..3 frames of a partial block pending),
 * then the real psf_close -> alac_close (final block, 'kuki' and 'pakt'
 * chunks, header rewrite, copy of the spool file into the output, fclose,
 * remove). Environment: E-stdio ghost stream (env/stdio_model.c: fopen may
 * fail, fwrite may be short), E-memfile for the output (MF_FAULTY variant:
 * every psf_fwrite/psf_fseek may fail - the C15 fault schedule), the ALAC
 * bit-stream encoder is a contract stub (alac_encode: any packet of
 * 0..ENC_MAX bytes).
 * Obligations: after psf_close no stream is left open, the temporary file no
 * longer exists, nothing is leaked (CBMC --memory-leak-check), the output
 * descriptor was closed once - whatever was (not) written and whichever I/O
 * call failed. A failed alac_init (spool file cannot be created) followed by
 * psf_close leaves nothing behind either.
 */
#include "verif.h"
#include <stdlib.h>
#include <string.h>
#include <unistd.h>
/* The codec state block (ALAC_PRIVATE, > 1 MB in the shipped build, ~170 KB with the packet-buffer hook) is handed
** out as a TYPED static object instead of an untyped calloc block (R1: the solver ran out of memory on the byte-array
** encoding of the block); its release by psf_close is tracked by a ghost flag. Every other allocation is real. */
#include "alac_standin.h"
static void *verif_calloc (size_t n, size_t s) ;
static void verif_free (void *p) ;
#define calloc verif_calloc
#define free verif_free
#include "sndfile.c"
#include "alac.c"
#undef calloc
#undef free
static ALAC_PRIVATE g_plac ;
static int g_plac_state ;	/* 0 never allocated, 1 live, 2 released */
static void *
verif_calloc (size_t n, size_t s)
{	if (n == 1 && s >= sizeof (ALAC_PRIVATE) && g_plac_state == 0)
	{	g_plac_state = 1 ;		/* (a static object starts zeroed, like the calloc block it stands for) */
		return &g_plac ;
		} ;
	return (calloc) (n, s) ;
}
static void
verif_free (void *p)
{	if (p == (void *) &g_plac)
	{	VASSERT (g_plac_state == 1, "codec state block released once (no double free)") ;
		g_plac_state = 2 ;
		return ;
		} ;
	(free) (p) ;
}
#include "memfile.h"
#include "stdio_model.h"

#ifndef ENC_MAX
#define ENC_MAX 40
#endif

/* (compiled in both modes: in native replay these definitions take the place of the library's, harness objects link first) */
/* contract stubs of the ALAC bit-stream library (src/ALAC): not the subject here */
int32_t alac_encoder_init (ALAC_ENCODER *p, uint32_t samplerate, uint32_t channels, uint32_t format_flags, uint32_t frameSize)
{	(void) p ; (void) samplerate ; (void) channels ; (void) format_flags ; (void) frameSize ; return 0 ; }
int32_t alac_encode (ALAC_ENCODER *p, uint32_t numSamples, const int32_t *rd, unsigned char *wr, uint32_t *ioNumBytes)
{	uint32_t nd_encbytes = nondet_uint () ;
	(void) p ; (void) rd ; (void) wr ;
	VASSERT (numSamples <= ALAC_FRAME_LENGTH, "alac_encode is given at most one block of frames") ;
	VASSUME (nd_encbytes <= ENC_MAX) ;
	*ioNumBytes = nd_encbytes ;
	return 0 ;
}
uint32_t alac_get_magic_cookie_size (uint32_t inNumChannels) { return inNumChannels > 2 ? 48 : 24 ; }
void alac_get_magic_cookie (ALAC_ENCODER *p, void *config, uint32_t *ioSize)
{	(void) p ;
	VASSERT (V_W_OK (config, *ioSize), "magic cookie buffer holds the size announced") ;
	memset (config, 0x5a, *ioSize <= 48 ? *ioSize : 48) ;
}
int32_t alac_decoder_init (ALAC_DECODER *p, void *c, uint32_t n) { (void) p ; (void) c ; (void) n ; return 0 ; }
int32_t alac_decode (ALAC_DECODER *p, struct BitBuffer *bits, int32_t *sampleBuffer, uint32_t numSamples, uint32_t *outNumSamples)
{	(void) p ; (void) bits ; (void) sampleBuffer ; (void) numSamples ; *outNumSamples = 0 ; return 0 ; }


static SF_PRIVATE g_static ;
static unsigned char g_hdr [300] ;
static int g_hdr_writes ;

static int
stub_write_header (SF_PRIVATE *psf, int calc_length)
{	/* stands for caf_write_header: rewrites a few header bytes at the start, leaves the position at the data offset */
	static const unsigned char h [8] = { 'c', 'a', 'f', 'f', 0, 1, 0, 0 } ;
	(void) calc_length ;
	g_hdr_writes ++ ;
	psf_fseek (psf, 0, SEEK_SET) ;
	psf_fwrite (h, 1, sizeof (h), psf) ;
	return psf->error ;
}

int
main (void)
{	SF_PRIVATE *psf = &g_static, *hp ;
	ALAC_PRIVATE *plac ;
	int nd_ch = nondet_int (), nd_npk = nondet_int (), nd_partial = nondet_int () ;
	uint32_t nd_pk0 = nondet_uint (), nd_pk1 = nondet_uint () ;
	int rc ;
#if ! (defined (VERIF_CBMC) || defined (__CPROVER__))
	char saved_name [512] = "" ;
#endif

	VASSUME (nd_ch >= 1 && nd_ch <= 2) ;
#ifdef CH_FIXED
	nd_ch = CH_FIXED ;	/* the codec state block is sized from it: concrete allocation size (R1) */
#endif
	{	static const SF_PRIVATE zero_psf ;
		*psf = zero_psf ;
		psf->header.ptr = g_hdr ; psf->header.len = sizeof (g_hdr) ;
	}
	psf_init_files (psf) ;
	psf->file.filedes = 0 ;
	psf->file.mode = SFM_WRITE ;
	psf->Magick = SNDFILE_MAGICK ;
	psf->sf.samplerate = 44100 ; psf->sf.channels = nd_ch ; psf->sf.format = SF_FORMAT_CAF | SF_FORMAT_ALAC_16 ;
	psf->sf.sections = 1 ; psf->sf.seekable = SF_TRUE ;
	psf->write_header = stub_write_header ;
	mf [0].len = 0 ; mf [0].pos = 0 ;

	rc = alac_init (psf, NULL) ;
	plac = psf->codec_data ;
	if (rc == 0)
	{	VASSERT (plac != NULL && plac->enctmp != NULL && plac->pakt_info != NULL, "successful encoder init: spool stream and packet table exist") ;
#if defined (VERIF_CBMC) || defined (__CPROVER__)
		VASSERT (sm.open == 1 && sm.exists == 1, "exactly one spool stream is open") ;
#else
		strcpy (saved_name, plac->enctmpname) ;
#endif
		/* any state a write history leaves: packets spooled so far and a partially assembled block */
		VASSUME (nd_npk >= 0 && nd_npk <= 2 && nd_partial >= 0 && nd_partial <= 3) ;
#ifdef NPK_FIXED
		nd_npk = NPK_FIXED ;	/* packet count on the grid: the packet table is indexed by it (R4: no symbolic-index stores into the 8 KB table) */
#endif
		VASSUME (nd_pk0 <= ENC_MAX && nd_pk1 <= ENC_MAX) ;
		if (nd_npk >= 1)
		{	VASSERT (fwrite (plac->byte_buffer, 1, nd_pk0, plac->enctmp) <= nd_pk0, "spool") ;
			plac->pakt_info = alac_pakt_append (plac->pakt_info, nd_pk0) ;
			} ;
		if (nd_npk >= 2)
		{	VASSERT (fwrite (plac->byte_buffer, 1, nd_pk1, plac->enctmp) <= nd_pk1, "spool") ;
			plac->pakt_info = alac_pakt_append (plac->pakt_info, nd_pk1) ;
			} ;
		VASSUME (plac->pakt_info != NULL) ;
		plac->partial_block_frames = nd_partial ;
		psf->sf.frames = (sf_count_t) nd_npk * ALAC_FRAME_LENGTH + nd_partial ;
		psf->write_current = psf->sf.frames ;
		}
	else
	{	VASSERT (rc == SFE_ALAC_FAIL_TMPFILE || rc == SFE_MALLOC_FAILED, "encoder init fails only for lack of a spool file or memory") ;
#if defined (VERIF_CBMC) || defined (__CPROVER__)
		VASSERT (sm.open == 0, "failed init leaves no stream open") ;
#endif
		} ;

	/* the REAL psf_close on a heap handle (what psf_allocate returned): every block must be released by it */
	hp = malloc (sizeof (SF_PRIVATE)) ;
	VASSUME (hp != NULL) ;
	*hp = *psf ;
	hp->header.ptr = malloc (16) ;
	rc = psf_close (hp) ;
	VASSERT (rc == 0, "close returns 0 when the underlying close succeeds") ;
	VASSERT (mf [0].n_close == 1, "the output descriptor is closed exactly once") ;
	VASSERT (g_plac_state != 1, "the codec state block is released by sf_close") ;
#if defined (VERIF_CBMC) || defined (__CPROVER__)
	VASSERT (sm.open == 0, "no spool stream is left open after sf_close") ;
	VASSERT (sm.exists == 0, "the temporary spool file is removed by sf_close") ;
	VASSERT (sm.n_fclose <= 1, "the spool stream is closed at most once") ;
#else
	if (plac != NULL && saved_name [0])
		VASSERT (access (saved_name, F_OK) != 0, "the temporary spool file is removed by sf_close") ;
#endif
	WITNESS_END () ;
	return 0 ;
}
