/* C20 H1: G.711 tables and their index arithmetic vs the ITU reference.
 * Real code: src/ulaw.c, src/alaw.c (included to reach the static kernels).
 * Symbolic: the 8-bit code, the 16-bit and 32-bit input sample.
 */
#include "verif.h"
#include "ulaw.c"
#include "alaw.c"
#include "ref_g711.h"

int
main (void)
{
#if defined (H_DECODE)
	/* every code: table == ITU expand, through each integer sample type */
	unsigned char nd_code = nondet_uchar () ;
	short s ; int i ;
	ulaw2s_array (&nd_code, 1, &s) ;
	VASSERT (s == ref_ulaw_expand (nd_code), "ulaw2s == ITU expand") ;
	ulaw2i_array (&nd_code, 1, &i) ;
	VASSERT (i == (int) ((uint32_t) ref_ulaw_expand (nd_code) << 16), "ulaw2i == ITU expand << 16") ;
	alaw2s_array (&nd_code, 1, &s) ;
	VASSERT (s == ref_alaw_expand (nd_code), "alaw2s == ITU expand") ;
	alaw2i_array (&nd_code, 1, &i) ;
	VASSERT (i == (int) ((uint32_t) ref_alaw_expand (nd_code) << 16), "alaw2i == ITU expand << 16") ;
#elif defined (H_ENCODE_S)
	/* every short: encode == ITU compress of sign + magnitude */
	short nd_s = nondet_short () ;
	unsigned char u, a ;
	int neg = nd_s < 0 ;
	int mag = neg ? - (int) nd_s : (int) nd_s ;
	s2ulaw_array (&nd_s, 1, &u) ;
	VASSERT (u == ref_ulaw_compress_mag (mag >> 2, neg), "s2ulaw == ITU compress") ;
	s2alaw_array (&nd_s, 1, &a) ;
	VASSERT (a == ref_alaw_compress_mag (mag >> 4, neg), "s2alaw == ITU compress") ;
	/* decode after encode is the reference quantiser (same decision interval) */
	{	short d ;
		ulaw2s_array (&u, 1, &d) ;
		VASSERT (d == ref_ulaw_expand (ref_ulaw_compress_mag (mag >> 2, neg)), "ulaw decode(encode(s)) == reference quantiser") ;
		VASSERT ((d < 0) == neg || d == 0 || mag < 4, "ulaw quantiser keeps the sign") ;
		alaw2s_array (&a, 1, &d) ;
		VASSERT (d == ref_alaw_expand (ref_alaw_compress_mag (mag >> 4, neg)), "alaw decode(encode(s)) == reference quantiser") ;
		VASSERT ((d < 0) == neg, "alaw quantiser keeps the sign") ;
	}
#elif defined (H_ENCODE_I)
	/* every int: the >> 18 / >> 20 index arithmetic incl. INT_MIN */
	int nd_i = nondet_int () ;
	unsigned char u, a ;
	int neg = nd_i < 0 ;
	int64_t mag = neg ? - (int64_t) nd_i : (int64_t) nd_i ;
	if (mag > INT_MAX) mag = INT_MAX ;	/* documented: INT_MIN saturates */
	i2ulaw_array (&nd_i, 1, &u) ;
	VASSERT (u == ref_ulaw_compress_mag ((int) (mag >> 18), neg), "i2ulaw == ITU compress of top 14 bits") ;
	i2alaw_array (&nd_i, 1, &a) ;
	VASSERT (a == ref_alaw_compress_mag ((int) (mag >> 20), neg), "i2alaw == ITU compress of top 12 bits") ;
#elif defined (H_IDENT)
	/* encode(decode(c)) == c for every code (mu-law: the two zero codes collapse) */
	unsigned char nd_code = nondet_uchar () ;
	short s ; unsigned char b ;
	ulaw2s_array (&nd_code, 1, &s) ;
	s2ulaw_array (&s, 1, &b) ;
	VASSERT (b == nd_code || (nd_code == 0x7F && b == 0xFF), "ulaw encode(decode(c)) == c (modulo negative zero)") ;
	alaw2s_array (&nd_code, 1, &s) ;
	s2alaw_array (&s, 1, &b) ;
	VASSERT (b == nd_code, "alaw encode(decode(c)) == c") ;
#elif defined (H_STRIDE)
	/* count = 3: each element converted independently and in place order */
	short nd_s [3] ; unsigned char u [3], a [3] ; short d [3] ; int k ;
	ND_FILL (nd_s, 3, short) ;
	s2ulaw_array (nd_s, 3, u) ;
	s2alaw_array (nd_s, 3, a) ;
	for (k = 0 ; k < 3 ; k++)
	{	int neg = nd_s [k] < 0, mag = neg ? - (int) nd_s [k] : (int) nd_s [k] ;
		VASSERT (u [k] == ref_ulaw_compress_mag (mag >> 2, neg), "s2ulaw element k") ;
		VASSERT (a [k] == ref_alaw_compress_mag (mag >> 4, neg), "s2alaw element k") ;
		} ;
	ulaw2s_array (u, 3, d) ;
	for (k = 0 ; k < 3 ; k++) VASSERT (d [k] == ref_ulaw_expand (u [k]), "ulaw2s element k") ;
	alaw2s_array (a, 3, d) ;
	for (k = 0 ; k < 3 ; k++) VASSERT (d [k] == ref_alaw_expand (a [k]), "alaw2s element k") ;
#else
#error "select a harness"
#endif
	WITNESS_END () ;
	return 0 ;
}
