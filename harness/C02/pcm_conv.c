/* C02 H1-H3, H7: integer PCM <-> {short,int,float,double} through the real
 * pcm_init selection + pcm_read_X2Y / pcm_write_X2Y + x2y_array kernels.
 *
 * Grid (defines): BW (1..4), BE (0/1), U8 (0/1), SEL in {RD, WR_INT, WR_F, WR_D}.
 * Symbolic: the file bytes / the API samples (COUNT of them), the norm and
 * clipping flags. Oracle: ref_conv.h.
 */
#include "verif.h"
#include "pcm.c"
#include "memfile.h"
#include "ref_conv.h"

#ifndef COUNT
#define COUNT 2
#endif

static SF_PRIVATE g_psf ;

/* The routines are called by name (PFX = sc, uc, les, bes, let, bet, lei, bei) so that the
 * query contains one routine, not the 80-way function-pointer fan-out; that pcm_init installs
 * exactly these routines for the configuration is asserted as pointer equalities (H7). */
#define CAT3_(a, b, c)	a ## b ## c
#define CAT3(a, b, c)	CAT3_ (a, b, c)
#define RD(t)		CAT3 (pcm_read_, PFX, t)
#define WR(t)		CAT3 (t, PFX, )

static const float  pow2f_inv [5] = { 0, 1.0f / 128, 1.0f / 32768, 1.0f / 8388608, 1.0f / 2147483648.0f } ;
static const double pow2d_inv [5] = { 0, 1.0 / 128, 1.0 / 32768, 1.0 / 8388608, 1.0 / 2147483648.0 } ;

static void
reset_file (int len)
{	mf [0].pos = 0 ;
	mf [0].len = len ;
}

int
main (void)
{	SF_PRIVATE *psf = &g_psf ;
	int k, rc ;
	sf_count_t r ;

	psf->file.filedes = 0 ;
	psf->file.mode = SFM_RDWR ;
	psf->bytewidth = BW ;
	psf->endian = BE ? SF_ENDIAN_BIG : SF_ENDIAN_LITTLE ;
	psf->sf.channels = 1 ;
	psf->sf.format = SF_FORMAT_RAW | (BW == 1 ? (U8 ? SF_FORMAT_PCM_U8 : SF_FORMAT_PCM_S8) :
				BW == 2 ? SF_FORMAT_PCM_16 : BW == 3 ? SF_FORMAT_PCM_24 : SF_FORMAT_PCM_32) ;
#if defined (NORM)
	psf->norm_float = NORM ; psf->norm_double = NORM ; psf->add_clipping = CLIP ;
#else
	{	int nd_normf = nondet_int () ;
		int nd_normd = nondet_int () ;
		int nd_clip = nondet_int () ;
		VASSUME (nd_normf == SF_TRUE || nd_normf == SF_FALSE) ;
		VASSUME (nd_normd == SF_TRUE || nd_normd == SF_FALSE) ;
		VASSUME (nd_clip == SF_TRUE || nd_clip == SF_FALSE) ;
		psf->norm_float = nd_normf ;
		psf->norm_double = nd_normd ;
		psf->add_clipping = nd_clip ;
	}
#endif
	rc = pcm_init (psf) ;
	VASSERT (rc == 0, "pcm_init accepts the configuration") ;
	VASSERT (psf->blockwidth == BW, "blockwidth = bytewidth * channels") ;
	VASSERT (psf->read_short == RD (2s) && psf->read_int == RD (2i) && psf->read_float == RD (2f) && psf->read_double == RD (2d),
			"pcm_init installs the read routines of this width/endianness/signedness") ;
	VASSERT (psf->write_short == WR (pcm_write_s2) && psf->write_int == WR (pcm_write_i2) && psf->write_float == WR (pcm_write_f2)
			&& psf->write_double == WR (pcm_write_d2), "pcm_init installs the write routines of this width/endianness/signedness") ;

#if defined (SEL_RD)
	{	unsigned char nd_b [COUNT * BW] ;
		short os [COUNT] ; int oi [COUNT] ; float of [COUNT] ; double od [COUNT] ;
		ND_FILL (nd_b, COUNT * BW, uchar) ;
		for (k = 0 ; k < COUNT * BW ; k++)
			mf [0].data [k] = nd_b [k] ;
		reset_file (COUNT * BW) ;
		r = RD (2s) (psf, os, COUNT) ;
		VASSERT (r == COUNT, "read_short count") ;
		reset_file (COUNT * BW) ;
		r = RD (2i) (psf, oi, COUNT) ;
		VASSERT (r == COUNT, "read_int count") ;
		reset_file (COUNT * BW) ;
		r = RD (2f) (psf, of, COUNT) ;
		VASSERT (r == COUNT, "read_float count") ;
		reset_file (COUNT * BW) ;
		r = RD (2d) (psf, od, COUNT) ;
		VASSERT (r == COUNT, "read_double count") ;
		for (k = 0 ; k < COUNT ; k++)
		{	int32_t v = ref_file_value (nd_b + k * BW, BW, BE, U8) ;
			int32_t m = ref_msb32 (v, BW) ;
			VASSERT (oi [k] == m, "int read: most significant bits kept, zero padded") ;
			VASSERT (os [k] == (short) (m >> 16), "short read: most significant 16 bits") ;
			if (psf->norm_float == SF_TRUE)
				VASSERT (of [k] == (float) v * pow2f_inv [BW], "float read (normalised) == value / 2^(w-1)") ;
			else
				VASSERT (of [k] == (float) v, "float read (un-normalised) == value") ;
			if (psf->norm_double == SF_TRUE)
				VASSERT (od [k] == (double) v * pow2d_inv [BW], "double read (normalised) == value / 2^(w-1)") ;
			else
				VASSERT (od [k] == (double) v, "double read (un-normalised) == value") ;
			/* cross-type agreement */
			VASSERT (os [k] == (short) (oi [k] >> 16), "short and int reads agree") ;
			} ;
	}
#elif defined (SEL_WR_INT)
	{	short nd_s [COUNT] ; int nd_i [COUNT] ;
		unsigned char exp [4] ;
		int j ;
		ND_FILL (nd_s, COUNT, short) ;
		ND_FILL (nd_i, COUNT, int) ;
		reset_file (0) ;
		r = WR (pcm_write_s2) (psf, nd_s, COUNT) ;
		VASSERT (r == COUNT, "write_short count") ;
		VASSERT (mf [0].len == COUNT * BW, "write_short file length") ;
		for (k = 0 ; k < COUNT ; k++)
		{	ref_file_bytes (ref_top ((int32_t) ((uint32_t) (uint16_t) nd_s [k] << 16), BW), BW, BE, U8, exp) ;
			for (j = 0 ; j < BW ; j++)
				VASSERT (mf [0].data [k * BW + j] == exp [j], "short write: MSBs kept / zero padded, byte order") ;
			} ;
		reset_file (0) ;
		r = WR (pcm_write_i2) (psf, nd_i, COUNT) ;
		VASSERT (r == COUNT, "write_int count") ;
		VASSERT (mf [0].len == COUNT * BW, "write_int file length") ;
		for (k = 0 ; k < COUNT ; k++)
		{	ref_file_bytes (ref_top (nd_i [k], BW), BW, BE, U8, exp) ;
			for (j = 0 ; j < BW ; j++)
				VASSERT (mf [0].data [k * BW + j] == exp [j], "int write: most significant bytes kept, byte order") ;
			} ;
	}
#elif defined (SEL_WR_F) || defined (SEL_WR_D)
	{
#if defined (SEL_WR_F)
		typedef float FT ;
		FT nd_x [COUNT] ;
		const int norm = psf->norm_float ;
		ND_FILL (nd_x, COUNT, float) ;
#else
		typedef double FT ;
		FT nd_x [COUNT] ;
		const int norm = psf->norm_double ;
		ND_FILL (nd_x, COUNT, double) ;
#endif
		const FT C = norm ? (FT) (1.0 * ref_imax (BW)) : (FT) 1.0 ;		/* documented scale 2^(w-1) - 1 */
		const FT S = norm ? (FT) (-1.0 * ref_imin (BW)) : (FT) 1.0 ;		/* 2^(w-1) (clip kernels) */
		unsigned char exp [4], expb [4] ;
		int j ;
		for (k = 0 ; k < COUNT ; k++)
		{	VASSUME (! isnan (nd_x [k]) && ! isinf (nd_x [k])) ;
			/* without clipping the int conversion is only defined while it fits an int */
			if (! psf->add_clipping)
				VASSUME (nd_x [k] * C < 2147483520.0 && nd_x [k] * C > -2147483520.0) ;
			} ;
		reset_file (0) ;
#if defined (SEL_WR_F)
		r = WR (pcm_write_f2) (psf, nd_x, COUNT) ;
#else
		r = WR (pcm_write_d2) (psf, nd_x, COUNT) ;
#endif
		VASSERT (r == COUNT, "write count") ;
		VASSERT (mf [0].len == COUNT * BW, "file length") ;
		for (k = 0 ; k < COUNT ; k++)
		{	FT x = nd_x [k] ;
			int same = 1, sameb = 1 ;
			if (! psf->add_clipping)
			{	/* nearest integer to x * (2^(w-1) - 1) [IEEE, round-to-nearest-even], truncated to w bytes */
				/* same IEEE operation as the documented rule: lrint[f] of the IEEE product (the
				** assumption above keeps it inside int, where lrint and llrint agree) */
#if defined (SEL_WR_F)
				int64_t v = lrintf (x * C) ;
#else
				int64_t v = lrint (x * C) ;
#endif
				ref_file_bytes ((int32_t) v, BW, BE, U8, exp) ;
				for (j = 0 ; j < BW ; j++)
					VASSERT (mf [0].data [k * BW + j] == exp [j], "float write (no clip) == lrint (x * (2^(w-1)-1)), byte order") ;
				}
			else
			{	int64_t a, b ;
				FT lim = norm ? (FT) 1.0 : (FT) (-1.0 * ref_imin (BW)) ;
				if (x >= lim)
					a = b = ref_imax (BW) ;		/* saturates, never wraps */
				else if (x <= -lim)
					a = b = ref_imin (BW) ;
				else
				{
#if defined (SEL_WR_F)
					a = ref_clamp (llrintf (x * S), BW) ;
					b = ref_clamp (llrintf (x * C), BW) ;
#else
					a = ref_clamp (llrint (x * S), BW) ;
					b = ref_clamp (llrint (x * C), BW) ;
#endif
					} ;
				ref_file_bytes ((int32_t) a, BW, BE, U8, exp) ;
				ref_file_bytes ((int32_t) b, BW, BE, U8, expb) ;
				for (j = 0 ; j < BW ; j++)
				{	same = same && mf [0].data [k * BW + j] == exp [j] ;
					sameb = sameb && mf [0].data [k * BW + j] == expb [j] ;
					} ;
				VASSERT (same || sameb, "float write (clip): saturates at the extremes, else nearest integer to x*2^(w-1) or x*(2^(w-1)-1)") ;
				} ;
			} ;
	}
#else
#error "select SEL_*"
#endif
	WITNESS_END () ;
	return 0 ;
}
