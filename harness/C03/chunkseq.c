/* C03 L2 / C16 H1 for the CHUNKED containers (AIFF/AIFC, WAV, CAF ...): the
 * real X_open in READ mode on a file that is a SEQUENCE OF CHUNKS - chunk
 * ids and declared sizes are on the grid (one harness per sequence; with
 * symbolic ids the parser's switch does not fold and every chunk type is
 * explored at every position), every CONTENT byte of every chunk is symbolic
 * (counts, sizes-inside-chunks, string lengths, sample formats ...), and the
 * file may be truncated at a grid position. Whatever the parse does - accept
 * or reject at any depth - the REAL psf_close must release everything
 * (--memory-leak-check) and close the descriptor once, and an accepted file
 * must pass the open gate with a sane SF_INFO.
 *
 * The sequence is described by SEQ_BODY, a list of builder calls:
 *   ID4 ("COMM") BE32 (18) SYM (18) ...       (see seq helpers below)
 */
#include "verif.h"
#include <stdlib.h>
#include <string.h>
#include "sndfile.c"
#include CONTAINER_FILE
#include "memfile.h"

#ifndef POOL
#define POOL 96
#endif

static SF_PRIVATE g_static ;
static unsigned char g_hdr [MF_CAP + 264] ;
static unsigned char nd_pool [POOL] ;
static int g_w, g_p ;		/* write position in the file image, read position in the symbolic pool (both concrete) */

static void put1 (unsigned v)	{ mf [0].data [g_w ++] = (unsigned char) v ; }
static void ID4 (const char *s)	{ put1 (s [0]) ; put1 (s [1]) ; put1 (s [2]) ; put1 (s [3]) ; }
static void BE32 (unsigned v)	{ put1 (v >> 24) ; put1 (v >> 16) ; put1 (v >> 8) ; put1 (v) ; }
static void LE32 (unsigned v)	{ put1 (v) ; put1 (v >> 8) ; put1 (v >> 16) ; put1 (v >> 24) ; }
static void BE16 (unsigned v)	{ put1 (v >> 8) ; put1 (v) ; }
static void LE16 (unsigned v)	{ put1 (v) ; put1 (v >> 8) ; }
static void BE64 (unsigned v)	{ BE32 (0) ; BE32 (v) ; }
static void B1 (unsigned v)	{ put1 (v) ; }
static void SYM (int n)		{ int k ; for (k = 0 ; k < n ; k++) { mf [0].data [g_w ++] = nd_pool [g_p ++] ; } ; }
/* one symbolic byte constrained to lo..hi (a count or length the parser loops on: stated bound) */
#ifdef SYM_COUNTS
static void SYMR (unsigned lo, unsigned hi)	{ VASSUME (nd_pool [g_p] >= lo && nd_pool [g_p] <= hi) ; SYM (1) ; }
#else
/* default: counts / string lengths inside chunks on the grid (the largest value of the range): with a symbolic count the
** parser's position in the header cache becomes symbolic and every later read is a symbolic-size copy (measured: no verdict) */
static void SYMR (unsigned lo, unsigned hi)	{ (void) lo ; put1 (hi) ; }
#endif
static void ZERO (int n)	{ int k ; for (k = 0 ; k < n ; k++) put1 (0) ; }

#include "seqs.h"
#ifndef SF_CUES_VAR_SIZE
#define SF_CUES_VAR_SIZE(count)	(sizeof (SF_CUES_VAR (0)) + (count) * sizeof (SF_CUE_POINT))	/* as in src/common.c */
#endif

int
main (void)
{	SF_PRIVATE *psf, *hp ;
	SF_INFO si ;
	int rc ;

	ND_FILL (nd_pool, POOL, uchar) ;
	g_w = 0 ; g_p = 0 ;
	{ SEQ_BODY }
	VASSERT (g_w <= MF_CAP && g_p <= POOL, "sequence fits the file image and the pool (harness bound)") ;
#ifdef TRUNC_AT
	mf [0].len = TRUNC_AT ;
#else
	mf [0].len = g_w ;
#endif
	mf [0].len_min = mf [0].len ;
	mf [0].pos = 0 ;

	psf = &g_static ;
	{	static const SF_PRIVATE zero_psf ;
		*psf = zero_psf ;
		/* static header cache (R1: bytes read back from a heap block are no longer constants for the symbolic executor);
		** larger than the file image, so the parsers never need to grow it */
		psf->header.ptr = g_hdr ;
		psf->header.len = sizeof (g_hdr) ;
	}
	psf_init_files (psf) ;
	psf->file.filedes = 0 ;
	memset (&si, 0, sizeof (si)) ;
	psf->file.mode = SFM_READ ;
	psf->sf.format = FMT & SF_FORMAT_TYPEMASK ;
	/* what psf_open_file sets before dispatching (preopen.h) */
	psf->Magick = SNDFILE_MAGICK ;
	psf->norm_float = SF_TRUE ; psf->norm_double = SF_TRUE ;
	psf->dataoffset = -1 ; psf->datalength = -1 ; psf->read_current = -1 ; psf->write_current = -1 ;
	psf->rwf_endian = SF_ENDIAN_LITTLE ;
	psf->seek = psf_default_seek ;
	psf->float_max = -1.0 ;
	psf->sf.sections = 1 ;
	psf->sf.seekable = SF_TRUE ;
	psf->filelength = psf_get_filelen (psf) ;
	psf->last_op = psf->file.mode ;

	rc = OPEN_FN (psf) ;
	VASSERT (rc >= 0 && rc <= SFE_MAX_ERROR, "open returns 0 or a defined error code") ;
#ifdef EXPECT_OK
	VASSERT (rc == 0, "this well-formed sequence is accepted") ;
#endif
	if (rc == 0)
	{	if (validate_sfinfo (&psf->sf) && validate_psf (psf))
		{	VASSERT (psf->sf.channels >= 1 && psf->sf.channels <= SF_MAX_CHANNELS && psf->sf.samplerate >= 1 && psf->sf.frames >= 0 && psf->sf.sections >= 1,
					"a handle that passes the open gate has 1 <= channels <= 1024, samplerate >= 1, frames >= 0, sections >= 1") ;
			VASSERT (psf->blockwidth >= 0 && psf->bytewidth >= 0 && psf->dataoffset >= 0, "geometry fields are non-negative") ;
			} ;
		if (psf->cues != NULL)
			VASSERT (V_OBJSIZE (psf->cues) >= SF_CUES_VAR_SIZE (psf->cues->cue_count), "cue table holds cue_count entries") ;
		if (psf->instrument != NULL)
			VASSERT (psf->instrument->loop_count >= 0 && psf->instrument->loop_count <= (int) ARRAY_LEN (psf->instrument->loops), "loop count within the loops array") ;
		} ;
	/* the REAL psf_close on a heap handle (what psf_allocate returned) */
	hp = malloc (sizeof (SF_PRIVATE)) ;
	VASSUME (hp != NULL) ;
	*hp = *psf ;
	hp->header.ptr = malloc (16) ;
	rc = psf_close (hp) ;
	VASSERT (rc == 0, "close returns 0 when the underlying close succeeds") ;
	VASSERT (mf [0].n_close == 1, "the descriptor is closed exactly once") ;
	WITNESS_END () ;
	return 0 ;
}
