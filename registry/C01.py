from vf import H
import importlib.util, os
def _load(n):
    spec = importlib.util.spec_from_file_location("reg_%s_x" % n, os.path.join(os.path.dirname(os.path.abspath(__file__)), n + ".py"))
    m = importlib.util.module_from_spec(spec); spec.loader.exec_module(m); return m
HARNESSES = _load("sg_common").sg_harnesses(("SEL_WR",))
HARNESSES += _load("blk_common").sds_harnesses(("SEL_FLUSH",))

HARNESSES += _load("blk_common").dwvw_harnesses()
# ALAC staging layer (K-block contract for the bit-stream library)
HARNESSES += _load("blk_common").alac_stage_harnesses(("SEL_WRITE", "SEL_READ"))
# float / double file formats: the per-sample conversion kernels (exact for the lossless type pairs)
HARNESSES += _load("C02").fconv_harnesses()

META = {"assumptions": ["E-memfile"], "outside": ["block codecs: see DESIGN"]}
