#!/usr/bin/env python3
"""Runs the registered checks against every confirmed seeded change (one at a time: git apply in /repo,
run the mapped checks, git checkout) and records in seeded/<id>/meta.json which checks catch it.
Never leaves /repo modified. Usage: seed_matrix.py [seed ...]"""
import os, sys, json, subprocess, time

V = "/verif"
# seed -> list of (property, --only pattern or None): the checks whose harness families cover the code site.
# A seed is also considered "detected" only if the check exits 1 with a VIOLATION line.
MAP = {
    "C01_m1": [("C01", None)], "C01_m2": [("C01", None)],
    "C02_m1": [("C02", "bei.WR_D")], "C02_m2": [("C18", "calc.SFC_CALC_NORM_SIGNAL_MAX.ch1,calc.SFC_CALC_SIGNAL_MAX.ch1"), ("C17", "calc.")],
    "C03_m1": [("C03", "wavleaf.fmt")], "C03_m2": [("C05", "wrap.read_float.ch2"), ("C03", "wrap.read_float.ch2")],
    "C04_m1": [("C04", "blk.ima"), ("C07", "blk.ima")], "C04_m2": [("C04", "aiff.pcm16.ch1024")],
    "C05_m1": [("C05", "wrap.read_raw.ch2")], "C05_m2": [("C05", "sg.pcm_32be.double.RD")],
    "C06_m1": [("C06", "blk.")], "C06_m2": [("C06", "seek.ima_aiff.ch2")],
    "C07_m1": [("C18", "peak.float32.int.ch2.fixed")], "C07_m2": [("C07", None)],
    "C08_m1": [("C08", None)], "C08_m2": [("C08", None)],
    "C09_m1": [("C09", "wrap.seek.ch1"), ("C06", "wrap.seek.ch1")], "C09_m2": [("C09", "metarefuse"), ("C17", "metarefuse")],
    "C10_m1": [("C10", "mat4cpu"), ("C04", "mat4cpu.pcm16.ch1.n1")], "C10_m2": [("C10", "tables.index")],
    "C11_m1": [("C11", "wrap.writef_float.ch2")], "C11_m2": [("C11", "rt.upd.wav.pcm16.ch1.n3.sr44100.wptr0")],
    "C12_m1": [("C12", "meta.cues.wav.pcm16.ch1.n1")], "C12_m2": [("C12", "wrap.write_raw.ch1")],
    "C13_m1": [("C13", "rgrow.count20,chunk.seq")], "C13_m2": [("C13", None)],
    "C14_m1": [("C14", "embed_open")], "C14_m2": [("C14", None)],
    "C15_m1": [("C15", "sg.pcm_16le.float.FAULT")], "C15_m2": [("C15", "alac.close")],
    "C16_m1": [("C16", "chunkseq.aiff.s2,chunkseq.aiff.s3")], "C16_m2": [("C16", "alac.close")],
    "C17_m1": [("C17", "cmd.SFC_GET_CUE,cmd.SFC_SET_CUE")], "C17_m2": [("C17", "calc.SFC_CALC_SIGNAL_MAX.ch1"), ("C18", "calc.SFC_CALC_SIGNAL_MAX.ch1")],
    "C18_m1": [("C18", "peak.float32.float.ch1")], "C18_m2": [("C18", "calc.SFC_CALC_MAX_ALL_CHANNELS.ch2")],
    "C19_m1": [("C19", "fileio.ownership")], "C19_m2": [("C19", None)],
    "C20_m1": [("C20", "adpcm.ms.ch1")], "C20_m2": [("C20", "adpcm.ima_wav.ch1.b8")],
    "C01_m3": [("C01", "alac.stage.write.short.ch2")], "C01_m4": [("C01", "fconv.double64.d2i"), ("C02", "fconv.double64.d2i")],
    "C03_m3": [("C03", "readf.j")], "C03_m4": [("C17", "cmd.SFC_GET_CUE"), ("C03", "cmd.SFC_GET_CUE")],
    "C04_m3": [("C04", "alac.stage.pakt")], "C04_m4": [("C04", "rt.wavex")],
    "C05_m3": [("C05", "alac.stage.read.double.ch2")], "C05_m4": [("C05", "ms.stage.write.float")],
    "C06_m3": [("C06", "alac.stage.seek")], "C06_m4": [("C06", "stage.paf24.read.short")],
    "C07_m3": [("C07", "alac.stage.write.float.ch2.p3")], "C07_m4": [("C07", "xi.split.d2dsc")],
    "C11_m3": [("C11", "rt.upd.w64")], "C11_m4": [("C11", "cmd.SFC_UPDATE_HEADER_NOW")],
    "C12_m3": [("C12", None)], "C12_m4": [("C12", "chanmask")],
    "C15_m3": [("C15", "readf.j")], "C15_m4": [("C15", "codec_init_close.gsm610")],
    "C16_m3": [("C16", "setters_close")], "C16_m4": [("C16", "sd2.parse.r80")],
    "C02_m3": [("C02", "fwrap.double64.wr_int")], "C02_m4": [("C02", "fconv.float32.f2i_clip")],
    "C08_m3": [("C08", None)], "C08_m4": [("C08", None), ("C05", "wrap.writef_float")],
    "C09_m3": [("C09", "sd2.parse.r80")], "C09_m4": [("C09", "wrap.read_double")],
    "C10_m3": [("C10", "open_fmt.aiff.pcm_u8")], "C10_m4": [("C10", None)],
    "C13_m3": [("C13", None)], "C13_m4": [("C13", None)],
    "C14_m3": [("C14", None)], "C14_m4": [("C14", "fileio.ownership"), ("C19", "fileio.ownership")],
    "C17_m3": [("C17", "cmd.SFC_GET_BROADCAST_INFO")], "C17_m4": [("C17", "cmd.SFC_GET_LOG_INFO")],
    "C18_m3": [("C18", "peak.double64.float.ch2.fixed")], "C18_m4": [("C18", "calc.SFC_CALC_SIGNAL_MAX")],
    "C19_m3": [("C19", None)], "C19_m4": [("C19", None)],
    "C20_m3": [("C20", "g711fd")], "C20_m4": [("C20", "ieee.double64.read")],
    "R_g711_intmin": [("C20", "g711.H_ENCODE_I")], "R_d2sc_clip": [("C02", "sc.WR_D.norm1.clip1")], "R_cmdstr0": [("C17", "cmd.SFC_GET_LIB_VERSION")],
    "R_embedshort": [("C14", "embed_open.au.k4,embed_open.au.k1.")], "R_peak_double": [("C18", "peak.double64.double.ch1")], "R_sds_close": [("C01", "blk.sds16.flush.k10")],
    "R_htk_sr0": [("C10", "open_sr.htk")],
    "R_paf24_norm": [("C05", "stage.paf24.write.float")],
    "R_d2i_clip": [("C02", "fconv.double64.d2i_clip")],
    "R_cart_calloc": [("C03", "wavleaf.cart")],
    "R_wchunk_count": [("C13", "wgrow.count20,chunk.seq.33")], "R_iter_stale": [("C13", "chunk.iter")],
}


def sh(cmd, timeout=None):
    p = subprocess.run(cmd, shell=True, stdout=subprocess.PIPE, stderr=subprocess.STDOUT, timeout=timeout)
    return p.returncode, p.stdout.decode("utf-8", "replace")


R = os.environ.get("SEED_REPO", "/var/tmp/seedrepo")      # scratch worktree of /repo HEAD: /repo itself stays free for other work


def main():
    seeds = sys.argv[1:] or sorted(MAP)
    sh("git -C /repo worktree remove --force %s" % R)
    rc, out = sh("git -C /repo worktree add --detach %s HEAD" % R)
    if rc != 0:
        print("cannot create worktree", out); return 2
    tier = os.environ.get("SEED_TIER", "quick")
    for s in seeds:
        d = os.path.join(V, "seeded", s)
        if not os.path.isdir(d):
            print(s, "missing"); continue
        rc, out = sh("git -C %s apply %s/patch.diff" % (R, d))
        if rc != 0:
            print(s, "PATCH DOES NOT APPLY", out[-200:]); sh("git -C %s checkout -- ." % R); continue
        caught = []
        ran = []
        try:
            for pid, only in MAP.get(s, []):
                cmd = "cd %s && VERIF_REPO=%s timeout 1500 python3 run_check.py %s --tier %s --no-evidence" % (V, R, pid, tier)
                if only:
                    cmd += " --only '%s'" % only
                t0 = time.time()
                rc, out = sh(cmd, timeout=1600)
                viol = [l for l in out.splitlines() if l.startswith("VIOLATION") or l.startswith("  harness=")]
                summary = out.strip().splitlines()[-1] if out.strip() else ""
                ran.append({"check": pid, "only": only, "exit": rc, "wall_s": round(time.time() - t0, 1), "summary": summary[:200], "violation_lines": viol[:4]})
                if rc == 1 and any(l.startswith("VIOLATION") for l in viol):
                    caught.append(pid + (":" + only if only else ""))
        finally:
            sh("git -C %s checkout -- ." % R)
        meta_p = os.path.join(d, "meta.json")
        meta = json.load(open(meta_p)) if os.path.isfile(meta_p) else {}
        meta["detected_by"] = caught
        meta["detected_tier"] = tier
        meta["checks_run_against_it"] = ran
        json.dump(meta, open(meta_p, "w"), indent=1)
        print("%-16s %s  %s" % (s, "CAUGHT by " + ", ".join(caught) if caught else "missed", "; ".join("%s rc=%s %ss" % (r["check"], r["exit"], r["wall_s"]) for r in ran)), flush=True)
    sh("git -C /repo worktree remove --force %s" % R)
    return 0


if __name__ == "__main__":
    sys.exit(main())
