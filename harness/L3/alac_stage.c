/* C01/C05/C06/C07 for the ALAC codec's STAGING LAYER (src/alac.c): the eight
 * alac_write_{s,i,f,d} / alac_read_{s,i,f,d} functions, alac_seek,
 * alac_encode_block and alac_decode_block, from an ARBITRARY point of a
 * write or read history: P frames of the current FPB-frame packet already
 * staged / consumed (P on the grid incl. the packet boundary), B packets in
 * the packet table. The ALAC bit-stream library is a contract stub (K-block,
 * DESIGN 3.3): alac_encode records what it is handed, alac_decode delivers a
 * fresh symbolic packet of G frames.
 *
 *   SEL_WRITE  one call with L <= LM symbolic items: every item lands at
 *              offset (P * channels + j) of the packet buffer (or at the
 *              start of the next packet once FPB frames are complete, after
 *              exactly one alac_encode of a full packet that already holds
 *              the earlier items), P advances by L / channels, L is returned
 *              - hence any split of a write sequence stages the same packets
 *              (C07) and what is staged is what was written (C01).
 *   SEL_READ   one call with L <= LM items: item j is the packet buffer item
 *              (P * channels + j), converted for the caller's type; at the
 *              end of the packet the next one is decoded (from the right
 *              file offset, with the right size) and reading continues at
 *              its start; never more than L items stored (C05/C06).
 *   SEL_SEEK   alac_seek to ANY frame offset: decodes exactly the packet
 *              floor (offset / FPB) from the file position given by the
 *              packet table, leaves P = offset % FPB, returns offset;
 *              offsets beyond the table are refused (C06).
 */
#include "verif.h"
#include <stdlib.h>
#include <string.h>
#include "alac_standin.h"
#include "sndfile.c"
#include "alac.c"
#include "memfile.h"
#include "stdio_model.h"

#ifndef LM
#define LM 4
#endif
#ifndef CH
#define CH 2
#endif
#ifndef P0
#define P0 0
#endif
/* frames per packet: 4096 for every file the library writes, any value <= 4096 for files it reads (taken from the
** file); the staging arithmetic is uniform in it. The harness runs with a small value (stated bound, like the
** SF_BUFFER_LEN hook) so that the packet buffer is a small object for the solver. */
#ifndef FPB
#define FPB 8
#endif
#ifndef FTB
#define FTB FPB
#endif

static SF_PRIVATE g_psf ;
static struct { ALAC_PRIVATE p ; int tail [CH * FPB + LM + 8] ; } g_store ;

/* ghost record of the contract stubs */
static int g_enc_calls, g_dec_calls ;
static uint32_t g_enc_frames, g_dec_size ;
static int g_enc_snapshot [LM + 2] ;	/* the items of the last frame(s) of the packet handed to alac_encode */
static const unsigned char *g_dec_from ;
static int nd_next [LM + 2] ;		/* first items of the packet the decoder delivers next */
static uint32_t nd_next_frames ;

/* (compiled in both modes: in native replay these definitions take the place of the library's, harness objects link first) */
int32_t alac_encoder_init (ALAC_ENCODER *p, uint32_t sr, uint32_t ch, uint32_t fl, uint32_t fs) { (void) p ; (void) sr ; (void) ch ; (void) fl ; (void) fs ; return 0 ; }
int32_t
alac_encode (ALAC_ENCODER *p, uint32_t numSamples, const int32_t *rd, unsigned char *wr, uint32_t *ioNumBytes)
{	int k ;
	(void) p ; (void) wr ;
	g_enc_calls ++ ;
	g_enc_frames = numSamples ;
	/* the tail of a full packet: items (4096 * CH - (LM+2)) .. */
	for (k = 0 ; k < LM + 2 ; k++)
		g_enc_snapshot [k] = rd [FPB * CH - (LM + 2) + k] ;
	*ioNumBytes = 7 ;
	return 0 ;
}
uint32_t alac_get_magic_cookie_size (uint32_t n) { return n > 2 ? 48 : 24 ; }
void alac_get_magic_cookie (ALAC_ENCODER *p, void *config, uint32_t *ioSize) { (void) p ; (void) config ; (void) ioSize ; }
int32_t alac_decoder_init (ALAC_DECODER *p, void *c, uint32_t n) { (void) p ; (void) c ; (void) n ; return 0 ; }
int32_t
alac_decode (ALAC_DECODER *p, struct BitBuffer *bits, int32_t *sampleBuffer, uint32_t numSamples, uint32_t *outNumSamples)
{	int k ;
	(void) p ; (void) numSamples ;
	g_dec_calls ++ ;
	g_dec_size = bits->byteSize ;
	g_dec_from = bits->cur ;
	for (k = 0 ; k < LM + 2 ; k++)
		sampleBuffer [k] = nd_next [k] ;
	*outNumSamples = nd_next_frames ;
	return 0 ;
}


#if defined (API_s)
#define WRITE_FN alac_write_s
#define READ_FN alac_read_s
#define W_EXPECT(x)	((int) ((unsigned) (int) (x) << 16))
#define R_EXPECT(v)	((short) ((v) >> 16))
#elif defined (API_i)
#define WRITE_FN alac_write_i
#define READ_FN alac_read_i
#define W_EXPECT(x)	(x)
#define R_EXPECT(v)	(v)
#elif defined (API_f)
#define WRITE_FN alac_write_f
#define READ_FN alac_read_f
#define R_EXPECT(v)	((float) ((psf->norm_float == SF_TRUE ? (float) (1.0 / ((float) 0x80000000)) : (float) 1.0) * (v)))
#elif defined (API_d)
#define WRITE_FN alac_write_d
#define READ_FN alac_read_d
#define R_EXPECT(v)	((double) ((psf->norm_double == SF_TRUE ? 1.0 / ((float) 0x80000000) : 1.0) * (v)))
#endif

static const uint8_t *g_pakt_data ;
static uint32_t g_pakt_len ;
static int stub_get_chunk_size (SF_PRIVATE *psf, const SF_CHUNK_ITERATOR *it, SF_CHUNK_INFO *ci) { (void) psf ; (void) it ; ci->datalen = g_pakt_len ; return 0 ; }
static int stub_get_chunk_data (SF_PRIVATE *psf, const SF_CHUNK_ITERATOR *it, SF_CHUNK_INFO *ci)
{	uint32_t k ;
	(void) psf ; (void) it ;
	for (k = 0 ; k < 40 ; k++) if (k < g_pakt_len && k < ci->datalen) ((uint8_t *) ci->data) [k] = g_pakt_data [k] ;
	return 0 ;
}
static SF_CHUNK_ITERATOR *stub_next_chunk_iterator (SF_PRIVATE *psf, SF_CHUNK_ITERATOR *it) { (void) psf ; (void) it ; return NULL ; }

int
main (void)
{	SF_PRIVATE *psf = &g_psf ;
	ALAC_PRIVATE *plac = &g_store.p ;
	API_T nd_buf [LM + 2] ;
	int nd_len = nondet_int (), nd_norm = nondet_int (), nd_clip = nondet_int () ;
	sf_count_t ret ;
	int j, first ;

	{	static const SF_PRIVATE zero_psf ;
		*psf = zero_psf ;
	}
	psf->Magick = SNDFILE_MAGICK ;
	psf->file.filedes = 0 ;
	psf->sf.channels = CH ; psf->sf.samplerate = 44100 ; psf->sf.format = SF_FORMAT_CAF | SF_FORMAT_ALAC_16 ;
	VASSUME (nd_norm == SF_TRUE || nd_norm == SF_FALSE) ;
	VASSUME (nd_clip == SF_TRUE || nd_clip == SF_FALSE) ;
	psf->norm_float = nd_norm ; psf->norm_double = nd_norm ; psf->add_clipping = nd_clip ;
	psf->codec_data = plac ;
	psf->dataoffset = 16 ; psf->datalength = 64 ;
	plac->channels = CH ;
	plac->frames_per_block = FPB ;
	plac->bits_per_sample = 16 ;
	plac->pakt_info = alac_pakt_alloc (8) ;
	VASSUME (plac->pakt_info != NULL) ;
	VASSUME (nd_len >= 0 && nd_len <= LM && nd_len % CH == 0) ;
	ND_FILL (nd_buf, LM + 2, API_ND) ;
#ifdef CONCRETE_VALUES
	/* float/double writers: the conversion itself (psf_f2i_array etc.) is not the subject here and does not finish with symbolic
	** values; position-distinct constants make a misplaced item visible */
	for (j = 0 ; j < LM + 2 ; j++) nd_buf [j] = (API_T) (0.125 * (j + 1)) ;
#endif

#if defined (SEL_WRITE)
	{	int expect [LM + 2] ;
		psf->file.mode = SFM_WRITE ;
		plac->enctmp = fopen ("/var/tmp/verif_alac_stage.tmp", "wb+") ;	/* (E-stdio ghost stream under CBMC) */
		VASSUME (plac->enctmp != NULL) ;
		plac->partial_block_frames = P0 ;
#if defined (API_f)
		(psf->add_clipping ? psf_f2i_clip_array : psf_f2i_array) (nd_buf, expect, LM, psf->norm_float) ;
#elif defined (API_d)
		(psf->add_clipping ? psf_d2i_clip_array : psf_d2i_array) (nd_buf, expect, LM, psf->norm_float) ;
#else
		for (j = 0 ; j < LM ; j++) expect [j] = W_EXPECT (nd_buf [j]) ;
#endif
		ret = WRITE_FN (psf, nd_buf, nd_len) ;
		VASSERT (ret == nd_len, "every item offered is accepted") ;
		/* items that complete the current packet, then the ones that start the next */
		first = (FPB - P0) * CH ;
		if (first > nd_len || P0 == 0) first = nd_len ;
		if (P0 * CH + nd_len >= FPB * CH && nd_len > 0)
		{	VASSERT (g_enc_calls == 1 && g_enc_frames == FPB, "a completed packet is encoded exactly once, with FPB frames") ;
			for (j = 0 ; j < LM ; j++)
				if (j < first)
					VASSERT (g_enc_snapshot [LM + 2 - first + j] == expect [j], "the encoder sees the packet's last items in place") ;
			for (j = 0 ; j < LM ; j++)
				if (j >= first && j < nd_len)
					VASSERT (plac->buffer [j - first] == expect [j], "items after the packet boundary start the next packet") ;
			VASSERT (plac->partial_block_frames == (uint32_t) ((nd_len - first) / CH), "position inside the new packet") ;
			VASSERT (plac->pakt_info->count == 1 && plac->pakt_info->packet_size [0] == 7, "the packet table records the encoded packet") ;
			}
		else
		{	VASSERT (g_enc_calls == 0, "no packet is encoded before FPB frames are staged") ;
			for (j = 0 ; j < LM ; j++)
				if (j < nd_len)
					VASSERT (plac->buffer [P0 * CH + j] == expect [j], "item j is staged at frame position P, channel-interleaved") ;
			VASSERT (plac->partial_block_frames == (uint32_t) (P0 + nd_len / CH), "staged frame count advances by the frames written") ;
			} ;
	}
#elif defined (SEL_READ)
	{	int nd_cur [LM + 2] ;
		API_T out [LM + 2] ;
		uint32_t nd_g = nondet_uint () ;
		ND_FILL (nd_cur, LM + 2, int) ;
		ND_FILL (nd_next, LM + 2, int) ;
		psf->file.mode = SFM_READ ;
		/* three packets of 5, 6 and 7 bytes; the reader is inside packet 0 (FTB frames decoded, P0 consumed) */
		plac->pakt_info = alac_pakt_append (plac->pakt_info, 5) ;
		plac->pakt_info = alac_pakt_append (plac->pakt_info, 6) ;
		plac->pakt_info = alac_pakt_append (plac->pakt_info, 7) ;
		plac->pakt_info->current = 1 ;
		plac->input_data_pos = psf->dataoffset + 5 ;
		mf [0].len = 64 ; mf [0].len_min = 64 ;
		plac->frames_this_block = FTB ;
		plac->partial_block_frames = P0 ;
		for (j = 0 ; j < LM + 2 ; j++) plac->buffer [P0 * CH + j] = nd_cur [j] ;
		VASSUME (nd_g <= FPB && nd_g * CH >= LM) ;	/* the next packet holds at least the rest of this request (stated bound: one packet boundary per call) */
		nd_next_frames = nd_g ;
		for (j = 0 ; j < LM + 2 ; j++) out [j] = 0 ;
		ret = READ_FN (psf, out, nd_len) ;
		first = (FTB - P0) * CH ;
		if (first > nd_len) first = nd_len ;
		VASSERT (ret >= 0 && ret <= nd_len, "never more items than asked for") ;
		for (j = 0 ; j < LM ; j++)
			if (j < first)
				VASSERT (out [j] == R_EXPECT (nd_cur [j]), "item j is the decoded item at frame position P, channel-interleaved") ;
		if (first < nd_len)
		{	sf_count_t avail = (sf_count_t) nd_g * CH, second = nd_len - first ;
			if (second > avail) second = avail ;
			VASSERT (g_dec_calls == 1 && g_dec_size == 6 && g_dec_from == plac->byte_buffer, "the next packet (table entry 1, 6 bytes) is decoded once") ;
			VASSERT (mf [0].pos == psf->dataoffset + 5 + 6 && plac->input_data_pos == psf->dataoffset + 11, "... read from its offset in the file") ;
			VASSERT (ret == first + second, "count = rest of this packet + what the next one holds") ;
			for (j = 0 ; j < LM ; j++)
				if (j >= first && j < first + second)
					VASSERT (out [j] == R_EXPECT (nd_next [j - first]), "reading continues at the start of the next packet") ;
			VASSERT (plac->partial_block_frames == (uint32_t) (second / CH), "position inside the next packet") ;
			}
		else
		{	VASSERT (ret == nd_len && g_dec_calls == 0, "inside the packet: full count, nothing decoded") ;
			VASSERT (plac->partial_block_frames == (uint32_t) (P0 + nd_len / CH), "position advances by the frames read") ;
			} ;
		for (j = 0 ; j < LM + 2 ; j++)
			if (j >= ret)
				VASSERT (out [j] == 0, "nothing is stored beyond the returned count") ;
	}
#elif defined (SEL_SEEK)
	{	sf_count_t nd_off = nondet_i64 () ;
		uint32_t nd_g = nondet_uint () ;
		psf->file.mode = SFM_READ ;
		plac->pakt_info = alac_pakt_append (plac->pakt_info, 5) ;
		plac->pakt_info = alac_pakt_append (plac->pakt_info, 6) ;
		plac->pakt_info = alac_pakt_append (plac->pakt_info, 7) ;
		plac->pakt_info->current = 2 ;
		plac->input_data_pos = psf->dataoffset + 11 ;
		plac->frames_this_block = FPB ;
		plac->partial_block_frames = P0 ;
		mf [0].len = 64 ; mf [0].len_min = 64 ;
		VASSUME (nd_g >= 1 && nd_g <= FPB) ;
		nd_next_frames = nd_g ;
		ret = alac_seek (psf, SFM_READ, nd_off) ;
		if (nd_off < 0 || nd_off > 3 * FPB)
			VASSERT (ret == PSF_SEEK_ERROR && psf->error == SFE_BAD_SEEK, "offsets outside the packet table are refused") ;
		else if (nd_off == 0)
			VASSERT (ret == 0 && plac->pakt_info->current == 0 && plac->input_data_pos == psf->dataoffset && plac->frames_this_block == 0,
					"seek to the start: first packet next, nothing decoded yet") ;
		else if (nd_off < 3 * FPB)
		{	int blk = (int) (nd_off / FPB) ;
			sf_count_t start = psf->dataoffset + (blk >= 1 ? 5 : 0) + (blk >= 2 ? 6 : 0) ;
			uint32_t size = blk == 0 ? 5 : blk == 1 ? 6 : 7 ;
			VASSERT (ret == nd_off, "seek returns the requested frame offset") ;
			VASSERT (g_dec_calls == 1 && g_dec_size == size, "exactly the packet holding the target frame is decoded") ;
			VASSERT (plac->input_data_pos == start + size && mf [0].pos == start + size, "... read from its offset in the file") ;
			VASSERT (plac->pakt_info->current == (uint32_t) blk + 1, "packet table cursor follows") ;
			VASSERT (plac->partial_block_frames == (uint32_t) (nd_off % FPB), "position inside the packet = offset mod FPB") ;
			VASSERT (plac->frames_this_block == nd_g, "frame count of the decoded packet installed") ;
			} ;
	}
#elif defined (SEL_PAKT)
	{	/* CAF 'pakt' chunk: the packet table written at close (alac_pakt_encode) is what a reader rebuilds from it
		** (alac_pakt_read_decode) - any two packet sizes; a size the varint format cannot hold is refused, never mangled */
		uint32_t nd_s0 = nondet_uint (), nd_s1 = nondet_uint (), size = 0 ;
		uint8_t *enc ;
		PAKT_INFO *back ;
		VASSUME (nd_s0 >= 1 && nd_s1 >= 1) ;
		psf->file.mode = SFM_WRITE ;
		plac->pakt_info = alac_pakt_append (plac->pakt_info, nd_s0) ;
		plac->pakt_info = alac_pakt_append (plac->pakt_info, nd_s1) ;
		plac->partial_block_frames = P0 ;
		psf->sf.frames = 2 * 4096 ;
		enc = alac_pakt_encode (psf, &size) ;
		if (enc == NULL)
			VASSERT (nd_s0 > 0x0fffffff || nd_s1 > 0x0fffffff, "only sizes beyond 28 bits are refused") ;
		else
		{	/* independent reference decoder: big-endian base-128, high bit = continuation */
			uint32_t pos = 24, v0 = 0, v1 = 0, n ;
			VASSERT (size >= 26 && size <= 24 + 8 && V_OBJSIZE (enc) >= size, "encoded table lies inside its block") ;
			for (n = 0 ; n < 4 ; n++) { uint8_t b = enc [pos ++] ; v0 = (v0 << 7) | (b & 0x7f) ; if (! (b & 0x80)) break ; } ;
			for (n = 0 ; n < 4 ; n++) { uint8_t b = enc [pos ++] ; v1 = (v1 << 7) | (b & 0x7f) ; if (! (b & 0x80)) break ; } ;
			VASSERT (v0 == nd_s0 && v1 == nd_s1 && pos == size, "pakt entries decode (reference varint decoder) to the packet sizes") ;
			VASSERT (enc [7] == 2 && enc [0] == 0, "packet count field") ;
			/* ... and the library's own reader rebuilds the same table */
			g_pakt_data = enc ; g_pakt_len = size ;
			psf->file.mode = SFM_READ ;
			psf_store_read_chunk_str (&psf->rchunks, "pakt", 0, size) ;
			psf->get_chunk_size = stub_get_chunk_size ; psf->get_chunk_data = stub_get_chunk_data ; psf->next_chunk_iterator = stub_next_chunk_iterator ;
			back = alac_pakt_read_decode (psf, 0) ;
			VASSERT (back != NULL && back->count == 2 && back->packet_size [0] == nd_s0 && back->packet_size [1] == nd_s1,
					"alac_pakt_read_decode rebuilds the packet table that was written") ;
			} ;
	}
#else
#error "select"
#endif
#if defined (SEL_WRITE) && ! (defined (VERIF_CBMC) || defined (__CPROVER__))
	fclose (plac->enctmp) ; remove ("/var/tmp/verif_alac_stage.tmp") ;
#endif
	WITNESS_END () ;
	return 0 ;
}
