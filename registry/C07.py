from vf import H
import importlib.util, os
def _load(n):
    spec = importlib.util.spec_from_file_location("reg_%s_x" % n, os.path.join(os.path.dirname(os.path.abspath(__file__)), n + ".py"))
    m = importlib.util.module_from_spec(spec); spec.loader.exec_module(m); return m
# split independence of the written bytes, sample-granular encoders (the SEL_WR harness asserts it together with C01's round trip)
HARNESSES = [h for h in _load("sg_common").sg_harnesses(("SEL_WR",))]
# block codec staging layer (K-block contract): IMA ADPCM, WAV and AIFF layouts
HARNESSES += _load("blk_common").ima_harnesses(("SEL_WRITE",))

HARNESSES += _load("blk_common").sds_harnesses(("SEL_HEADER",))
# ALAC staging layer (K-block contract for the bit-stream library)
HARNESSES += _load("blk_common").alac_stage_harnesses(("SEL_WRITE",))
# MS ADPCM write staging (reads exactly the items the caller supplied)
HARNESSES += _load("blk_common").ms_stage_harnesses()
# staging wrappers of the 16-bit block codecs (IMA, MS, GSM 06.10, G.72x, NMS)
HARNESSES += _load("blk_common").stage_generic_harnesses(("SEL_WRITE",))
# XI DPCM delta kernels: the predictor state carried between calls
HARNESSES += [h for h in _load("blk_common").xi_split_harnesses() if h.defines["ENC"] == 1]

META = {"assumptions": ["E-memfile"], "outside": ["block codecs and header determinism: see DESIGN"]}
