from vf import H

# sample-granular codec configurations: (tag, file, init, format, bytewidth, big_endian)
SG = [
 ("pcm_s8", "pcm.c", "pcm_init", "(SF_FORMAT_RAW|SF_FORMAT_PCM_S8)", 1, 0),
 ("pcm_u8", "pcm.c", "pcm_init", "(SF_FORMAT_RAW|SF_FORMAT_PCM_U8)", 1, 0),
 ("pcm_16le", "pcm.c", "pcm_init", "(SF_FORMAT_RAW|SF_FORMAT_PCM_16)", 2, 0),
 ("pcm_16be", "pcm.c", "pcm_init", "(SF_FORMAT_RAW|SF_FORMAT_PCM_16)", 2, 1),
 ("pcm_24le", "pcm.c", "pcm_init", "(SF_FORMAT_RAW|SF_FORMAT_PCM_24)", 3, 0),
 ("pcm_24be", "pcm.c", "pcm_init", "(SF_FORMAT_RAW|SF_FORMAT_PCM_24)", 3, 1),
 ("pcm_32le", "pcm.c", "pcm_init", "(SF_FORMAT_RAW|SF_FORMAT_PCM_32)", 4, 0),
 ("pcm_32be", "pcm.c", "pcm_init", "(SF_FORMAT_RAW|SF_FORMAT_PCM_32)", 4, 1),
 ("float_le", "float32.c", "float32_init", "(SF_FORMAT_RAW|SF_FORMAT_FLOAT)", 4, 0),
 ("float_be", "float32.c", "float32_init", "(SF_FORMAT_RAW|SF_FORMAT_FLOAT)", 4, 1),
 ("double_le", "double64.c", "double64_init", "(SF_FORMAT_RAW|SF_FORMAT_DOUBLE)", 8, 0),
 ("double_be", "double64.c", "double64_init", "(SF_FORMAT_RAW|SF_FORMAT_DOUBLE)", 8, 1),
 ("ulaw", "ulaw.c", "ulaw_init", "(SF_FORMAT_RAW|SF_FORMAT_ULAW)", 1, 0),
 ("alaw", "alaw.c", "alaw_init", "(SF_FORMAT_RAW|SF_FORMAT_ALAW)", 1, 0),
 ("dpcm16", "xi.c", "dpcm_init", "(SF_FORMAT_XI|SF_FORMAT_DPCM_16)", 2, 0),
 ("dpcm8", "xi.c", "dpcm_init", "(SF_FORMAT_XI|SF_FORMAT_DPCM_8)", 1, 0),
]
TYPES = [("short", "short", 2, 0), ("int", "int", 4, 0), ("float", "float", 4, 1), ("double", "double", 8, 1)]

def lossless(tag, bw, t, tsize, isf):
    """(is the write->read round trip the identity for this file encoding / API type?, mask expression)"""
    if tag == "dpcm8":
        return None
    if tag.startswith("pcm") or tag == "dpcm16":
        if isf: return None
        tb = tsize
        if bw >= tb: return "(x)"
        # narrower file: identity on samples whose low bits are zero -> compare against masked input
        drop = 8 * (tb - bw)
        return "((x) & ~((1 << %d) - 1))" % drop
    if tag.startswith("float"):
        return "(x)" if t == "float" else None
    if tag.startswith("double"):
        return "(x)" if t in ("double", "float") else None
    return None

QUICK_CFG = ("pcm_u8", "pcm_16le", "pcm_24be", "pcm_32le", "float_le", "double_be", "ulaw", "alaw", "dpcm16")

def is_quick(tag, t, sel):
    """quick tier = the combinations measured to finish in well under two minutes; float<->int conversions through the
    staging loops (minutes to > 10 min each) are thorough-tier only - their arithmetic is covered by C02 per kernel"""
    if tag not in QUICK_CFG:
        return False
    if sel == "SEL_WR" and tag in ("ulaw", "double_be"):
        return False        # 250-370 s each (measured); A-law and float32 keep the quick-tier coverage of these paths
    if tag.startswith("pcm") or tag in ("ulaw", "alaw", "dpcm16"):
        return t in ("short", "int")
    if tag.startswith("float"):
        return t == "float"
    if tag.startswith("double"):
        return t == "double"
    return False


def sg_harnesses(sel_list=("SEL_RD", "SEL_WR"), quick_types=None):
    out = []
    for tag, f, init, fmt, bw, be in SG:
        for t, tn, tsize, isf in TYPES:
            for sel in sel_list:
              for probe in (0, 1):
                if probe and not (tag == "alaw" and t == "float" and sel == "SEL_WR"):
                    continue
                # request bound: the 8193-entry G.711 tables with a symbolic index and float<->int conversions are the cost drivers
                LM = 2 if tag in ("ulaw", "alaw") else (3 if (isf or tag.startswith(("float", "double"))) else 5)
                d = {"CODEC_FILE": '"%s"' % f, "CODEC_INIT": init, "FMT": fmt, "BW": bw, "BE": be, "T": t, "TN": tn, "NDT": tn,
                     "IS_FLOAT_T": isf, sel: 1, "LMAX": LM,
                     # read side: the file may hold one staging buffer (8 bytes) MORE than the largest request, so that a wrapper which
                     # reads or delivers past the request is visible
                     "MF_CAP": LM * bw + 3 + (8 if sel == "SEL_RD" else 0), "MF_MAXIO": LM * 8, "MF_NFILES": 2,
                     "LIBSNDFILE_VERIF_BUFFER_LEN": 8}
                if tag in ("ulaw", "alaw"):
                    d["IS_G711"] = 1
                if tag.startswith("dpcm"):
                    d["CODEC_DATA_TYPE"] = "XI_PRIVATE"
                if probe:
                    d["PROBE_g711range"] = 1
                m = lossless(tag, bw, t, tsize, isf)
                if sel == "SEL_FAULT":
                    d["MF_FAULTY"] = 1
                d["LOSSLESS"] = 1 if (m and sel == "SEL_WR") else 0
                d["RT_MASK(x)"] = m or "(x)"
                heavy = isf and sel == "SEL_WR" and tag.startswith("pcm")
                out.append(H("sg.%s.%s.%s%s" % (tag, tn, sel[4:], ".probe_g711range" if probe else ""), "L3/sg_codec.c", kf=["g711range"], probe_for="g711range" if probe else None, link=["common"], stubs=["psf_log_printf", "psf_memset"],
                             defines=d, unwind=8, unwindset=["psf_fread.0:%d" % (LM * 8 + 1), "psf_fwrite.0:%d" % (LM * 8 + 1), "psf_memset.0:65"] + ["main.%d:%d" % (i, LM * bw + 5 + (8 if sel == "SEL_RD" else 0)) for i in range(14)],
                             checks="mem", include_env=("log_stub", "memfile", "memset_model"), timeout=600, solver="cadical" if isf else "default",
                             tiers=("quick", "thorough") if is_quick(tag, t, sel) else ("thorough",),
                             functions=[init, "%s read_%s/write_%s entry points and array kernels" % (f, tn, tn)],
                             bounds="1 channel, request 1..%d items over an 8-byte staging buffer (crosses staging boundaries for every width > 1 byte), split point j symbolic, file length symbolic (incl. truncated mid-sample; on the read side up to 8 bytes beyond the largest request), all sample values" % LM))
    return out
