from vf import H

HARNESSES = []
_c = dict(link=["common"], stubs=["psf_log_printf"], include_env=("log_stub", "memfile", "snprintf_model"), timeout=300, checks="mem")
def table_harnesses():
    return [
        H("tables.index", "C10/tables.c", defines={"SEL_INDEX": 1, "SNP_MAX": 90}, unwind=40,
          functions=["psf_get_format_simple", "psf_get_format_major", "psf_get_format_subtype", "psf_get_format_info", "sf_format_check", "sf_command"],
          bounds="all int index pairs (i, j) into the three enumeration tables incl. out of range", **_c),
        H("tables.usable", "C10/tables.c", defines={"SEL_USABLE": 1, "SNP_MAX": 90}, unwind=40,
          functions=["sf_format_check", "major_formats[]", "subtype_formats[]"], bounds="symbolic major index x all subtypes x channels {1,2}", **_c),
        H("tables.checkdom", "C10/tables.c", defines={"SEL_CHECKDOM": 1, "SNP_MAX": 90}, unwind=4,
          functions=["sf_format_check"], bounds="every 32-bit format word, channel count and sample rate", **_c),
    ]
HARNESSES += table_harnesses()
import importlib.util, os
def _load(n):
    spec = importlib.util.spec_from_file_location("reg_%s_x" % n, os.path.join(os.path.dirname(os.path.abspath(__file__)), n + ".py"))
    m = importlib.util.module_from_spec(spec); spec.loader.exec_module(m); return m
# H1/H3: accepted by sf_format_check => the container opens for writing with all four writers and re-opens as the same
# container and encoding (asserted inside the C04 round-trip harnesses); one configuration per container here
HARNESSES += [h for h in _load("C04").rt_harnesses() if ".ch1.n1" in h.name and h.probe_for is None and (".sr" not in h.name or ".sr44100" in h.name or ".sr8000" in h.name)]

# write open with any sample rate (0 and negative included): refused or accepted, never a fault
_ALLU = _load("allunits").ALL_UNITS if "_load" in globals() else None
for tag, cfile, openfn, fmt in (("htk", "htk.c", "htk_open", "(SF_FORMAT_HTK|SF_FORMAT_PCM_16)"), ("au", "au.c", "au_open", "(SF_FORMAT_AU|SF_FORMAT_PCM_16)"),
                                ("voc", "voc.c", "voc_open", "(SF_FORMAT_VOC|SF_FORMAT_PCM_16)"), ("svx", "svx.c", "svx_open", "(SF_FORMAT_SVX|SF_FORMAT_PCM_16)"),
                                ("avr", "avr.c", "avr_open", "(SF_FORMAT_AVR|SF_FORMAT_PCM_16)"), ("mat4", "mat4.c", "mat4_open", "(SF_FORMAT_MAT4|SF_FORMAT_PCM_16)"),
                                ("mpc2k", "mpc2k.c", "mpc2k_open", "(SF_FORMAT_MPC2K|SF_FORMAT_PCM_16)"), ("wav", "wav.c", "wav_open", "(SF_FORMAT_WAV|SF_FORMAT_PCM_16)"),
                                ("aiff", "aiff.c", "aiff_open", "(SF_FORMAT_AIFF|SF_FORMAT_PCM_16)"), ("w64", "w64.c", "w64_open", "(SF_FORMAT_W64|SF_FORMAT_PCM_16)")):
    HARNESSES.append(H("open_sr." + tag, "C10/open_sr.c", link=[u for u in _ALLU if u + ".c" != cfile], stubs=["psf_log_printf", "psf_memset", "append_snprintf"],
                       defines={"CONTAINER_FILE": '"%s"' % cfile, "OPEN_FN": openfn, "FMT": fmt, "MF_CAP": 256, "MF_MAXIO": 256, "SNP_MAX": 40, "PSF_MEMSET_MAX": 64, "STUB_APPEND_SNPRINTF": 1},
                       unwind=12, unwindset=["psf_fwrite.0:257", "psf_fread.0:257", "psf_memset.0:65", "strlen.0:70", "snprintf.0:41", "snprintf.1:41", "psf_binheader_writef.0:258",
                                             "psf_binheader_writef.1:40", "uint2tenbytefloat.0:34"],
                       checks="mem", fsa=340, include_env=("log_stub", "memfile", "memset_model", "snprintf_model", "libm_model"), timeout=300,
                       functions=[openfn, cfile + " header writer", "validate_sfinfo"], bounds="sample rate any 32-bit value, 1 channel, PCM16"))
# sf_format_check accepted => the container's write open succeeds, for every encoding word / endian flag
for tag, cfile, openfn, cont, submax in (("au", "au.c", "au_open", "SF_FORMAT_AU", "0x0033"), ("aiff", "aiff.c", "aiff_open", "SF_FORMAT_AIFF", "0x0007"), ("wav", "wav.c", "wav_open", "SF_FORMAT_WAV", "0x0007"),
                                         ("w64", "w64.c", "w64_open", "SF_FORMAT_W64", "0x0007"), ("voc", "voc.c", "voc_open", "SF_FORMAT_VOC", "0x0033"), ("svx", "svx.c", "svx_open", "SF_FORMAT_SVX", "0x0033"),
                                         ("mat4", "mat4.c", "mat4_open", "SF_FORMAT_MAT4", "0x0033"), ("avr", "avr.c", "avr_open", "SF_FORMAT_AVR", "0x0033"), ("htk", "htk.c", "htk_open", "SF_FORMAT_HTK", "0x0033"),
                                         ("mpc2k", "mpc2k.c", "mpc2k_open", "SF_FORMAT_MPC2K", "0x0033")):
  for subfix, endfix in ([(None, None)] if tag not in ("aiff", "wav", "w64") else [(sb, en) for sb in ("SF_FORMAT_PCM_S8", "SF_FORMAT_PCM_U8", "SF_FORMAT_PCM_16", "SF_FORMAT_FLOAT")
                                                                                       for en in ("SF_ENDIAN_FILE", "SF_ENDIAN_LITTLE", "SF_ENDIAN_BIG", "SF_ENDIAN_CPU")]):
    _d = {"CONTAINER_FILE": '"%s"' % cfile, "OPEN_FN": openfn, "CONTAINER": cont, "SUB_MAX": submax, "MF_CAP": 256, "MF_MAXIO": 256, "SNP_MAX": 40, "PSF_MEMSET_MAX": 64, "STUB_APPEND_SNPRINTF": 1}
    if subfix is not None: _d["SUB_FIXED"] = subfix; _d["SUB_MAX"] = "0x00ff"; _d["END_FIXED"] = endfix; _d["CH_FIXED"] = 2
    HARNESSES.append(H("open_fmt." + tag + ("" if subfix is None else "." + subfix[10:].lower() + "." + endfix[10:].lower()), "C10/open_fmt.c", link=[u for u in _ALLU if u + ".c" != cfile], stubs=["psf_log_printf", "psf_memset", "append_snprintf"],
                       defines=_d,
                       unwind=12, unwindset=["psf_fwrite.0:257", "psf_fread.0:257", "psf_memset.0:65", "strlen.0:70", "snprintf.0:41", "snprintf.1:41", "psf_binheader_writef.0:258",
                                             "psf_binheader_writef.1:40", "uint2tenbytefloat.0:34"],
                       checks="mem", fsa=340, include_env=("log_stub", "memfile", "memset_model", "snprintf_model", "libm_model"), timeout=400,
                       functions=["sf_format_check", openfn, cfile + " header writer", "codec init", "validate_sfinfo", "validate_psf"],
                       bounds="every encoding word 0..%s (PCM, float, G.711, the ADPCM/GSM/DWVW codes below it), every endian flag, 1..2 channels, 8000 Hz" % submax))
META = {"assumptions": [], "outside": ["accepted => the container's open really succeeds and writes (H1): see DESIGN, registered separately when built"]}
