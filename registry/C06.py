from vf import H

HARNESSES = []
def seek_harnesses(prefix=""):
    out = []
    for ch in (1, 2):
        common = dict(link=["common"], stubs=["psf_log_printf", "psf_memset"], unwind=4, checks="arith",
                      include_env=("log_stub", "memfile", "memset_model"), timeout=300, functions=["sf_seek"],
                      bounds="handle state arbitrary within I_open; offset any value with |offset| < 2^40; whence any int; codec seek = K-seek stub (succeeds or fails)")
        out.append(H(prefix + "wrap.seek.ch%d" % ch, "L4/wrap_seek.c", defines={"CH": ch, "FR_MAX": 4, "MF_CAP": 16}, kf=["seekfail"], **common))
        if ch == 1:
          out.append(H(prefix + "wrap.seek.ch%d.probe_seekfail" % ch, "L4/wrap_seek.c", defines={"CH": ch, "FR_MAX": 4, "MF_CAP": 16, "PROBE_seekfail": 1},
                     probe_for="seekfail", **common))
    return out
HARNESSES += seek_harnesses()

import importlib.util, os
def _load(n):
    spec = importlib.util.spec_from_file_location("reg_%s_x" % n, os.path.join(os.path.dirname(os.path.abspath(__file__)), n + ".py"))
    m = importlib.util.module_from_spec(spec); spec.loader.exec_module(m); return m
# partition independence at codec level (one call == two calls) for the sample-granular codecs
HARNESSES += [h for h in _load("sg_common").sg_harnesses(("SEL_RD",)) if h.name.split(".")[1] in ("pcm_16le", "pcm_24be", "float_le", "double_be", "ulaw", "alaw", "pcm_u8", "pcm_32be")]

# block codec staging layer (K-block contract): IMA ADPCM, WAV and AIFF layouts
HARNESSES += _load("blk_common").ima_harnesses(("SEL_SEEKREAD",))

HARNESSES += _load("blk_common").ms_harnesses(("SEL_SEEKREAD",))
# ALAC staging layer (K-block contract for the bit-stream library)
HARNESSES += _load("blk_common").alac_stage_harnesses(("SEL_SEEK", "SEL_READ"))
# seek target arithmetic of the block codecs whose decoder is reached through a function pointer (stubbed here)
HARNESSES += _load("blk_common").codec_seek_harnesses()
# staging wrappers of the 16-bit block codecs (IMA, MS, GSM 06.10, G.72x, NMS)
HARNESSES += _load("blk_common").stage_generic_harnesses(("SEL_READ",))
# XI DPCM delta kernels: the predictor state carried between calls
HARNESSES += [h for h in _load("blk_common").xi_split_harnesses() if h.defines["ENC"] == 0]

META = {"assumptions": ["I_open handle invariant", "K-seek: codec seek returns the target or -1"], "outside": []}
