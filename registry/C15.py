from vf import H
import importlib.util, os
def _load(n):
    spec = importlib.util.spec_from_file_location("reg_%s_x" % n, os.path.join(os.path.dirname(os.path.abspath(__file__)), n + ".py"))
    m = importlib.util.module_from_spec(spec); spec.loader.exec_module(m); return m
HARNESSES = []
# H2: sample-granular codecs over the faulty memory file (every fault schedule of the bounded run)
HARNESSES += _load("sg_common").sg_harnesses(("SEL_FAULT",))
# H1: public wrappers with a codec that may return short / fail its seek / fail the header write
HARNESSES += [h for h in _load("C05").HARNESSES if h.name.startswith("wrap.") and ".ch2" in h.name and "probe" not in h.name and "_raw" not in h.name]
HARNESSES += _load("C06").seek_harnesses()
# H6: sf_close of an ALAC encoder under output faults still releases the spool stream, the temporary file and every block
HARNESSES += [h for h in _load("C16").alac_harnesses() if "faulty" in h.name]
# H7: codec init under I/O faults followed by close (what a failing sf_open does)
HARNESSES += _load("C16").codec_init_harnesses()
# header-cache primitives on a pipe / short file: bounded (no spinning at EOF)
HARNESSES += [h for h in _load("C03").readf_harnesses() if ".pipe" in h.name]
META = {"assumptions": ["fault model = E-memfile MF_FAULTY: per call, any shorter transfer, failing seek, arbitrary tell/length answers"],
        "outside": ["block codecs, header parsers/writers and close under faults (see DESIGN)", "real OS errors"]}
