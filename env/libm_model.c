/* E-libm: exact models of the three libm functions the portable IEEE
 * serialisers (float32.c / double64.c) use and CBMC has no body for.
 *   frexp (x, &e) : x = m * 2^e, 0.5 <= |m| < 1   (glibc contract; exact)
 *   pow (2.0, n)   : exact power of two for integer n (the only use in libsndfile's serialisers)
 *   fmod (x, 1.0)  : x - trunc (x)
 * Only in the CBMC build; native replay uses the real libm.
 */
#if defined (__CPROVER__) || defined (VERIF_CBMC)
#include <stdint.h>
#include <math.h>
#include "verif.h"

double
frexp (double x, int *e)
{	union { double d ; uint64_t u ; } v ;
	int be ;
	v.d = x ;
	be = (int) ((v.u >> 52) & 0x7FF) ;
	if (x == 0.0 || be == 0x7FF)
	{	*e = 0 ;
		return x ;
		} ;
	VASSERT (be != 0, "frexp model: subnormal input (harness bound)") ;
	*e = be - 1022 ;
	v.u = (v.u & ~(((uint64_t) 0x7FF) << 52)) | (((uint64_t) 1022) << 52) ;
	return v.d ;
}

double
pow (double b, double y)
{	union { double d ; uint64_t u ; } v ;
	int n = (int) y ;
	VASSERT (b == 2.0 && (double) n == y, "pow model: only 2^integer is modelled (harness bound)") ;
	if (n > 1023)
		return HUGE_VAL ;
	if (n >= -1022)
		v.u = ((uint64_t) (n + 1023)) << 52 ;
	else if (n >= -1074)
		v.u = ((uint64_t) 1) << (52 + (n + 1022)) ;
	else
		v.u = 0 ;
	return v.d ;
}

/* isfinite () expands to this builtin under goto-cc; CBMC 6.11 has no body for it */
int
__builtin_isfinite (double x)
{	return __CPROVER_isfinited (x) ;
}

double
fmod (double x, double y)
{	VASSERT (y == 1.0, "fmod model: only fmod (x, 1.0) is modelled (harness bound)") ;
	return x - trunc (x) ;
}
#endif
