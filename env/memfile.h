#ifndef MEMFILE_H
#define MEMFILE_H
#ifndef MF_CAP
#define MF_CAP		64
#endif
#ifndef MF_NFILES
#define MF_NFILES	2
#endif
#ifndef MF_MAXIO
#define MF_MAXIO	MF_CAP
#endif
typedef struct
{	unsigned char	data [MF_CAP] ;
	sf_count_t	len, pos ;
	sf_count_t	len_min ;	/* a lower bound of len the harness knows (keep it concrete): reads that
					** end below it do not branch on a symbolic file length (R3/R8) */
	int		n_read, n_write, n_seek, n_trunc, n_close ;
} MEMFILE ;
extern MEMFILE mf [MF_NFILES] ;
extern int mf_rsrc_closes, mf_rsrc_closed_fd ;
#endif
