from vf import H

# sample-granular codec configurations: (tag, file, init, format, bytewidth, big_endian)
SG = [
 ("pcm_s8", "pcm.c", "pcm_init", "(SF_FORMAT_RAW|SF_FORMAT_PCM_S8)", 1, 0),
 ("pcm_u8", "pcm.c", "pcm_init", "(SF_FORMAT_RAW|SF_FORMAT_PCM_U8)", 1, 0),
 ("pcm_16le", "pcm.c", "pcm_init", "(SF_FORMAT_RAW|SF_FORMAT_PCM_16)", 2, 0),
 ("pcm_16be", "pcm.c", "pcm_init", "(SF_FORMAT_RAW|SF_FORMAT_PCM_16)", 2, 1),
 ("pcm_24le", "pcm.c", "pcm_init", "(SF_FORMAT_RAW|SF_FORMAT_PCM_24)", 3, 0),
 ("pcm_24be", "pcm.c", "pcm_init", "(SF_FORMAT_RAW|SF_FORMAT_PCM_24)", 3, 1),
 ("pcm_32le", "pcm.c", "pcm_init", "(SF_FORMAT_RAW|SF_FORMAT_PCM_32)", 4, 0),
 ("pcm_32be", "pcm.c", "pcm_init", "(SF_FORMAT_RAW|SF_FORMAT_PCM_32)", 4, 1),
 ("float_le", "float32.c", "float32_init", "(SF_FORMAT_RAW|SF_FORMAT_FLOAT)", 4, 0),
 ("float_be", "float32.c", "float32_init", "(SF_FORMAT_RAW|SF_FORMAT_FLOAT)", 4, 1),
 ("double_le", "double64.c", "double64_init", "(SF_FORMAT_RAW|SF_FORMAT_DOUBLE)", 8, 0),
 ("double_be", "double64.c", "double64_init", "(SF_FORMAT_RAW|SF_FORMAT_DOUBLE)", 8, 1),
 ("ulaw", "ulaw.c", "ulaw_init", "(SF_FORMAT_RAW|SF_FORMAT_ULAW)", 1, 0),
 ("alaw", "alaw.c", "alaw_init", "(SF_FORMAT_RAW|SF_FORMAT_ALAW)", 1, 0),
]
TYPES = [("short", "short", 2, 0), ("int", "int", 4, 0), ("float", "float", 4, 1), ("double", "double", 8, 1)]

def lossless(tag, bw, t, tsize, isf):
    """(is the write->read round trip the identity for this file encoding / API type?, mask expression)"""
    if tag.startswith("pcm"):
        if isf: return None
        tb = tsize
        if bw >= tb: return "(x)"
        # narrower file: identity on samples whose low bits are zero -> compare against masked input
        drop = 8 * (tb - bw)
        return "((x) & ~((1 << %d) - 1))" % drop
    if tag.startswith("float"):
        return "(x)" if t == "float" else None
    if tag.startswith("double"):
        return "(x)" if t in ("double", "float") else None
    return None

LM = 5
QUICK_CFG = ("pcm_u8", "pcm_16le", "pcm_24be", "pcm_32le", "float_le", "double_be", "ulaw", "alaw")

def sg_harnesses(sel_list=("SEL_RD", "SEL_WR"), quick_types=None):
    out = []
    for tag, f, init, fmt, bw, be in SG:
        for t, tn, tsize, isf in TYPES:
            for sel in sel_list:
                d = {"CODEC_FILE": '"%s"' % f, "CODEC_INIT": init, "FMT": fmt, "BW": bw, "BE": be, "T": t, "TN": tn, "NDT": tn,
                     "IS_FLOAT_T": isf, sel: 1, "LMAX": LM, "MF_CAP": LM * bw + 3, "MF_MAXIO": LM * 8, "MF_NFILES": 2,
                     "LIBSNDFILE_VERIF_BUFFER_LEN": 8}
                m = lossless(tag, bw, t, tsize, isf)
                if sel == "SEL_FAULT":
                    d["MF_FAULTY"] = 1
                d["LOSSLESS"] = 1 if (m and sel == "SEL_WR") else 0
                d["RT_MASK(x)"] = m or "(x)"
                heavy = isf and sel == "SEL_WR" and tag.startswith("pcm")
                out.append(H("sg.%s.%s.%s" % (tag, tn, sel[4:]), "L3/sg_codec.c", link=["common"], stubs=["psf_log_printf", "psf_memset"],
                             defines=d, unwind=8, unwindset=["psf_fread.0:%d" % (LM * 8 + 1), "psf_fwrite.0:%d" % (LM * 8 + 1), "psf_memset.0:65"] + ["main.%d:%d" % (i, LM * bw + 5) for i in range(14)],
                             checks="mem", include_env=("log_stub", "memfile", "memset_model"), timeout=600, solver="cadical" if isf else "default",
                             tiers=("thorough",) if (heavy or tag not in QUICK_CFG) else ("quick", "thorough"),
                             functions=[init, "%s read_%s/write_%s entry points and array kernels" % (f, tn, tn)],
                             bounds="1 channel, request 1..5 items over an 8-byte staging buffer (crosses staging boundaries for every width > 1 byte), split point j symbolic, file length symbolic (incl. truncated mid-sample), all sample values"))
    return out
