from vf import H

HARNESSES = []
_cfgs = [(1, 0, 0, "sc"), (1, 0, 1, "uc"), (2, 0, 0, "les"), (2, 1, 0, "bes"), (3, 0, 0, "let"), (3, 1, 0, "bet"), (4, 0, 0, "lei"), (4, 1, 0, "bei")]
_fn = ["pcm_init", "pcm_read_%s2{s,i,f,d}", "pcm_write_{s,i,f,d}2%s", "%s2{s,i,f,d}_array", "{s,i}2%s_array", "{f,d}2%s_array", "{f,d}2%s_clip_array"]
for bw, be, u8, pfx in _cfgs:
    base = {"BW": bw, "BE": be, "U8": u8, "PFX": pfx, "MF_CAP": 16, "MF_MAXIO": 8, "LIBSNDFILE_VERIF_BUFFER_LEN": 48}
    fns = [f % pfx if "%s" in f else f for f in _fn]
    for sel in ("SEL_RD", "SEL_WR_INT"):
        d = dict(base); d.update({sel: 1, "COUNT": 2})
        HARNESSES.append(H("pcm_conv.%s.%s" % (pfx, sel[4:]), "C02/pcm_conv.c", defines=d,
                           unwind=10, unwindset=["psf_fread.0:9", "psf_fwrite.0:9"], checks="mem",
                           include_env=("log_stub", "memfile"), timeout=300, functions=fns,
                           bounds="2 samples per call (kernels are per-sample loops); all file byte / sample values; norm flags symbolic"))
    for sel in ("SEL_WR_F", "SEL_WR_D"):
        for norm in (0, 1):
            for clip in (0, 1):
                d = dict(base); d.update({sel: 1, "COUNT": 1, "NORM": norm, "CLIP": clip})
                # double x constant multiply is the expensive part: thorough only for the 53-bit cases that take minutes
                hard = (sel == "SEL_WR_D" and norm == 1 and clip == 0 and bw >= 3)	# 53-bit x 23/31-bit constant multiply
                HARNESSES.append(H("pcm_conv.%s.%s.norm%d.clip%d" % (pfx, sel[4:], norm, clip), "C02/pcm_conv.c", defines=d,
                                   unwind=10, unwindset=["psf_fread.0:9", "psf_fwrite.0:9"], checks="mem",
                                   tiers=("thorough",) if hard else ("quick", "thorough"),
                                   include_env=("log_stub", "memfile"), timeout=3000 if hard else 400, functions=fns, solver="kissat" if hard else "cadical",
                                   bounds="1 sample; every finite float/double value (non-clipping: those whose scaled value fits an int)"))

META = {"assumptions": ["float->int without clipping is only checked where lrint(x*scale) fits an int (C conversion otherwise unspecified)",
                        "NaN/Inf inputs excluded", "goto-cc build uses lrint/lrintf (not the SSE2 intrinsics)"],
        "outside": ["real-arithmetic nearest-integer oracle (IEEE product rounding is part of the oracle)"]}
