/* L3 staging layer of Microsoft ADPCM (src/ms_adpcm.c): real
 * msadpcm_read_s / msadpcm_read_block / msadpcm_seek / msadpcm_decode_block
 * on typed codec state over a 3-block file with CONCRETE, position-distinct
 * bytes (the decoder arithmetic then folds to constants; its conformance is
 * C20 H4). Symbolic: p (frames read first), k (seek target), n (frames read
 * after the seek). Oracle: handle A decodes the same bytes sequentially.
 * Also: wavlike_msadpcm_init hands out a zero-initialised block buffer
 * (what a short final block is padded with must not depend on earlier heap
 * contents: C19).
 */
#include "verif.h"
#include <stdlib.h>
#include <string.h>
#include "ms_adpcm.c"
#include "memfile.h"

#define NB	3
#define SPB	(2 * (BS - 6 * CH) / CH)
#define F	(NB * SPB)
#define DOFF	4

static SF_PRIVATE g_psf [2] ;
static MSADPCM_PRIVATE g_ms [2] ;
static short g_samples [2][SPB * CH + 2] ;
static unsigned char g_block [2][BS + 2] ;

static void
setup (int h)
{	SF_PRIVATE *psf = &g_psf [h] ;
	MSADPCM_PRIVATE *pms = &g_ms [h] ;
	int k ;
	psf->file.filedes = h ;
	psf->file.mode = SFM_READ ;
	psf->sf.channels = CH ;
	psf->sf.format = SF_FORMAT_WAV | SF_FORMAT_MS_ADPCM ;
	psf->dataoffset = DOFF ;
	psf->datalength = (sf_count_t) NB * BS ;
	psf->codec_data = pms ;
	pms->channels = CH ; pms->blocksize = BS ; pms->samplesperblock = SPB ; pms->blocks = NB ;
	pms->samples = g_samples [h] ; pms->block = g_block [h] ;
	pms->blockcount = 0 ; pms->samplecount = 0 ;
	for (k = 0 ; k < DOFF + NB * BS ; k++)
		mf [h].data [k] = (unsigned char) ((k * 37 + 11) ^ (k >> 2)) ;
	/* valid predictor numbers in each block header */
	for (k = 0 ; k < NB ; k++)
	{	int c ;
		for (c = 0 ; c < CH ; c++) mf [h].data [DOFF + k * BS + c] = (unsigned char) ((k + c) % 7) ;
		} ;
	mf [h].len = DOFF + NB * BS ;
	mf [h].len_min = mf [h].len ;
	mf [h].pos = DOFF ;
	msadpcm_decode_block (psf, pms) ;	/* what wavlike_msadpcm_init does in read mode: decode the first block */
	psf->read_current = 0 ;
}

int
main (void)
{
#if defined (SEL_SEEKREAD)
	short seq [F * CH + 2], out [(SPB + 3) * CH + 2] ;
	int nd_p = nondet_int () ;
	int nd_k = nondet_int () ;
	int nd_n = nondet_int () ;
	sf_count_t r, s ;
	int k ;

	setup (0) ;
	r = msadpcm_read_s (&g_psf [0], seq, (sf_count_t) F * CH) ;
	VASSERT (r == (sf_count_t) F * CH, "sequential decode of the whole file") ;

	setup (1) ;
	VASSUME (nd_p >= 0 && nd_p <= SPB + 2) ;
	VASSUME (nd_k >= 0 && nd_k <= F) ;
	VASSUME (nd_n >= 1 && nd_n <= SPB + 2) ;
	if (nd_p > 0)
	{	r = msadpcm_read_s (&g_psf [1], out, (sf_count_t) nd_p * CH) ;
		VASSERT (r == (sf_count_t) nd_p * CH, "first read returns the request") ;
		g_psf [1].read_current += r / CH ;
		} ;
	s = msadpcm_seek (&g_psf [1], SFM_READ, nd_k) ;
	VASSERT (s == nd_k, "seek inside [0, frames] returns the requested frame") ;
	g_psf [1].read_current = s ;
	for (k = 0 ; k < (SPB + 3) * CH + 2 ; k++) out [k] = 0x5555 ;
	if (nd_k < F)
	{	sf_count_t want = (F - nd_k < nd_n ? F - nd_k : nd_n) * CH ;
		r = msadpcm_read_s (&g_psf [1], out, (sf_count_t) nd_n * CH) ;
		VASSERT (r >= want && r <= (sf_count_t) nd_n * CH, "read after seek returns the request") ;
		for (k = 0 ; k < (SPB + 2) * CH ; k++)
			if (k < want)
				VASSERT (out [k] == seq [nd_k * CH + k], "read after seek delivers exactly frames k, k+1, ... of the sequential decode") ;
		for (k = 0 ; k < (SPB + 3) * CH + 2 ; k++)
			if (k >= nd_n * CH)
				VASSERT (out [k] == 0x5555, "nothing written outside [ptr, ptr+len)") ;
		} ;
#elif defined (SEL_INIT)
	SF_PRIVATE *psf = &g_psf [0] ;
	MSADPCM_PRIVATE *pms ;
	int rc, k ;
	psf->file.filedes = 0 ;
	psf->file.mode = SFM_WRITE ;
	psf->sf.channels = CH ;
	psf->sf.format = SF_FORMAT_WAV | SF_FORMAT_MS_ADPCM ;
	rc = wavlike_msadpcm_init (psf, BS_INIT, 0) ;
	VASSERT (rc == 0, "init accepts a legal block size") ;
	pms = psf->codec_data ;
	VASSERT (pms != NULL && pms->samplecount == 0 && pms->blockcount == 0, "fresh encoder state") ;
	for (k = 0 ; k < 16 ; k++)
		if (k < pms->samplesperblock * CH)
			VASSERT (pms->samples [k] == 0, "the block buffer starts zeroed (a short final block is padded with zeros, never with earlier heap contents)") ;
	VASSERT (psf->write_short != NULL && psf->codec_close != NULL && psf->seek != NULL, "entry points installed") ;
#else
#error "select"
#endif
	WITNESS_END () ;
	return 0 ;
}
