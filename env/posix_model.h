#ifndef POSIX_MODEL_H
#define POSIX_MODEL_H
#include <sys/types.h>
#ifndef PX_CAP
#define PX_CAP 48
#endif
#ifndef PX_NFD
#define PX_NFD 6
#endif
#ifndef PX_MAXIO
#define PX_MAXIO 16
#endif
#ifndef PX_EINTR_MAX
#define PX_EINTR_MAX 2
#endif
typedef struct
{	unsigned char data [PX_CAP] ;
	off_t len ;
	off_t len_min ;	/* a concrete lower bound of len the harness knows: reads ending below it do not branch on the symbolic length (R3/R8) */
	int is_fifo ;
	struct { int open ; off_t pos ; int closed_by_lib ; } fd [PX_NFD] ;
	int n_read, n_write, n_seek, n_close, bad_fd_use, bad_close, eintr_run ;
} PX_STATE ;
extern PX_STATE px ;
#endif
