from vf import H
import importlib.util, os
def _load(n):
    spec = importlib.util.spec_from_file_location("reg_%s_x" % n, os.path.join(os.path.dirname(os.path.abspath(__file__)), n + ".py"))
    m = importlib.util.module_from_spec(spec); spec.loader.exec_module(m); return m
# C11 H1/H2: the same container machinery with the crash point right after the header update
# (write_header (calc_length = TRUE), which is what SFC_UPDATE_HEADER_NOW and the auto-update tail of sf_write_T call)
HARNESSES = [h for h in _load("C04").rt_harnesses(update_now=True) if h.probe_for in (None, "vocupd")]
# the wrappers' part: header rewritten after every write iff auto-update is on, frame count/dataend bookkeeping (C05 wrappers)
HARNESSES += [h for h in _load("C05").HARNESSES if h.name.startswith("wrap.write") and ".ch2" in h.name]
META = {"assumptions": ["crash image = memory-file content at the instant the update returns"],
        "outside": ["the audio prefix itself (C01 codec identity)", "block codecs", "OS-level write ordering"]}
