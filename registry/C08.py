from vf import H

HARNESSES = []
for op in ("OP_WRITE", "OP_READ", "OP_SEEK", "OP_TRUNC"):
    for ch in (1, 2):
        HARNESSES.append(H("rdwr.%s.ch%d" % (op[3:].lower(), ch), "L4/rdwr_step.c", link=["common"], stubs=["psf_log_printf", "psf_memset"],
                           defines={op: 1, "CH": ch, "MF_CAP": 4 + 7 * 2 * ch, "MF_MAXIO": 16, "LIBSNDFILE_VERIF_BUFFER_LEN": 16, "PSF_MEMSET_MAX": 16},
                           unwind=4 + 7 * 2 * ch + 2, unwindset=["psf_memset.0:17", "psf_fread.0:17", "psf_fwrite.0:17", "psf_ftruncate.0:%d" % (6 + 7 * 2 * ch)],
                           checks="mem", include_env=("log_stub", "memfile", "memset_model"), timeout=600,
                           functions=["sf_seek", "sf_readf_short", "sf_writef_short", "sf_command(SFC_FILE_TRUNCATE)", "psf_default_seek", "pcm_init", "pcm_read_les2s", "pcm_write_s2les"],
                           bounds="16-bit LE PCM, %d channel(s), file of <= 4 frames with symbolic content, arbitrary RDWR state (both positions, last_op), one operation with symbolic arguments (<= 2 frames)" % ch))
# every typed read/write wrapper re-seeks the codec when the last operation was of the other kind (or none yet, on a fresh RDWR
# handle): the position bookkeeping obligations of the L4 wrapper harnesses (any I_open state incl. last_op == SFM_RDWR)
import importlib.util, os
def _load(n):
    spec = importlib.util.spec_from_file_location("reg_%s_x8" % n, os.path.join(os.path.dirname(os.path.abspath(__file__)), n + ".py"))
    m = importlib.util.module_from_spec(spec); spec.loader.exec_module(m); return m
HARNESSES += [h for h in _load("C05").HARNESSES if h.name.startswith("wrap.") and ".ch2" in h.name and "probe" not in h.name and "_raw" not in h.name]
HARNESSES += [h for h in _load("C06").seek_harnesses()]
META = {"assumptions": ["E-memfile", "the state invariant inv() in harness/L4/rdwr_step.c"], "outside": ["histories are covered by induction over the single step; containers' close/re-open in RDWR: see DESIGN"]}
