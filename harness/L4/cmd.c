/* L4: the real sf_command (src/sndfile.c) + command.c / broadcast.c / cart.c /
 * common.c helpers, one command id per query (-DCMD=...), symbolic datasize,
 * data in {NULL, heap block of exactly datasize bytes}, handle in {NULL,
 * arbitrary I_open state with symbolic metadata}.  C17 H1 (memory bounds via
 * CBMC pointer checks on the exact-size block, NUL termination) and H2 (purity
 * of query commands).
 */
#include "verif.h"
#include <stdlib.h>
#include "sndfile.c"
#include "handle.h"

#ifndef DMAX
#define DMAX 64
#endif
#ifndef CH
#define CH 2
#endif

static SF_PRIVATE g_psf ;
static double g_stream [(FR_MAX + 1) * CH] ;
static sf_count_t g_rpos ;
static int g_hdr_calls, g_cmd_calls ;

static sf_count_t
stub_read_double (SF_PRIVATE *psf, double *ptr, sf_count_t len)
{	sf_count_t r, i ;
	VASSERT (len > 0 && len % CH == 0, "K-codec-read precondition") ;
	r = (g_rpos < psf->sf.frames) ? (psf->sf.frames - g_rpos) * CH : 0 ;
	if (r > len) r = len ;
	for (i = 0 ; i < (FR_MAX + 1) * CH ; i++)
		if (i < r)
			ptr [i] = g_stream [g_rpos * CH + i] ;
	g_rpos += r / CH ;
	return r ;
}
static sf_count_t
stub_seek (SF_PRIVATE *psf, int mode, sf_count_t pos)
{	(void) psf ; (void) mode ;
	VASSERT (pos >= 0, "K-seek precondition") ;
	g_rpos = pos ;
	return pos ;
}
static int g_hdr_calc = -1 ;
static int stub_write_header (SF_PRIVATE *psf, int calc) { (void) psf ; g_hdr_calc = calc ; g_hdr_calls ++ ; return 0 ; }
static int stub_command (SF_PRIVATE *psf, int cmd, void *data, int datasize)
{	(void) psf ; (void) cmd ;
	g_cmd_calls ++ ;
	VASSERT (data == NULL || datasize >= 0, "container command handler gets the caller's data/datasize") ;
	return 0 ;
}

typedef struct
{	void *peak, *cues, *loop, *inst, *bext, *cart, *chmap ;
	uint32_t cue_count ; int chmap0 ; int basenote ; uint32_t bext_ch_size, cart_tag_size ; double peak0 ;
	int float_int_mult, scale_int_float, ieee_replace, data_endswap ; float float_max ;
	sf_count_t rpos ;
} MSNAP ;

static void
msnap_take (SF_PRIVATE *psf, MSNAP *m)
{	m->peak = psf->peak_info ; m->cues = psf->cues ; m->loop = psf->loop_info ; m->inst = psf->instrument ;
	m->bext = psf->broadcast_16k ; m->cart = psf->cart_16k ; m->chmap = psf->channel_map ;
	m->cue_count = psf->cues ? psf->cues->cue_count : 0 ;
	m->chmap0 = psf->channel_map ? psf->channel_map [0] : 0 ;
	m->basenote = psf->instrument ? psf->instrument->basenote : 0 ;
	m->bext_ch_size = psf->broadcast_16k ? psf->broadcast_16k->coding_history_size : 0 ;
	m->cart_tag_size = psf->cart_16k ? psf->cart_16k->tag_text_size : 0 ;
	m->peak0 = psf->peak_info ? psf->peak_info->peaks [0].value : 0.0 ;
	m->float_int_mult = psf->float_int_mult ; m->scale_int_float = psf->scale_int_float ;
	m->ieee_replace = psf->ieee_replace ; m->data_endswap = psf->data_endswap ; m->float_max = psf->float_max ;
	m->rpos = g_rpos ;
}
static int
msnap_same (SF_PRIVATE *psf, const MSNAP *m)
{	MSNAP n ;
	msnap_take (psf, &n) ;
	return n.peak == m->peak && n.cues == m->cues && n.loop == m->loop && n.inst == m->inst && n.bext == m->bext
		&& n.cart == m->cart && n.chmap == m->chmap && n.cue_count == m->cue_count && n.chmap0 == m->chmap0
		&& n.basenote == m->basenote && n.bext_ch_size == m->bext_ch_size && n.cart_tag_size == m->cart_tag_size
		&& n.peak0 == m->peak0 && n.float_int_mult == m->float_int_mult && n.scale_int_float == m->scale_int_float
		&& n.ieee_replace == m->ieee_replace && n.data_endswap == m->data_endswap && n.float_max == m->float_max ;
}

int
main (void)
{	SF_PRIVATE *psf = &g_psf ;
	HSNAP before ;
	MSNAP mbefore ;
	int nd_datasize = nondet_int () ;
	int nd_nulldata = nondet_int () ;
	int nd_nullh = nondet_int () ;
	int nd_cont = nondet_int () ;
	int nd_codec = nondet_int () ;
	int nd_meta = nondet_int () ;
	double nd_stream [(FR_MAX + 1) * CH] ;
	signed char nd_plog [6] ;
	int ret, k, err_before ;
	unsigned char *data ;

	handle_arbitrary (psf, CH, 2) ;
	VASSUME (nd_cont == SF_FORMAT_WAV || nd_cont == SF_FORMAT_WAVEX || nd_cont == SF_FORMAT_RF64 || nd_cont == SF_FORMAT_AIFF
			|| nd_cont == SF_FORMAT_CAF || nd_cont == SF_FORMAT_RAW) ;
	VASSUME (nd_codec == SF_FORMAT_PCM_16 || nd_codec == SF_FORMAT_FLOAT || nd_codec == SF_FORMAT_DOUBLE) ;
	psf->sf.format = nd_cont | nd_codec ;
	psf->sf.seekable = SF_TRUE ;
	psf->read_double = stub_read_double ;
	psf->seek = stub_seek ;
	psf->write_header = stub_write_header ;
	psf->command = stub_command ;
	psf->float_max = -1.0 ;
	g_rpos = psf->read_current ;
	ND_FILL (nd_stream, (FR_MAX + 1) * CH, double) ;
	for (k = 0 ; k < (FR_MAX + 1) * CH ; k++)
	{	double nd_s = nd_stream [k] ;
		VASSUME (nd_s == nd_s && nd_s > -1e30 && nd_s < 1e30) ;
		g_stream [k] = nd_s ;
		} ;
	/* metadata: each item present or absent (bit mask), contents symbolic where the commands read them */
	if (nd_meta & 1)
	{	psf->cues = psf_cues_alloc (2) ;
		VASSUME (psf->cues != NULL) ;
		psf->cues->cue_count = 2 ;
		} ;
	if (nd_meta & 2)
	{	psf->instrument = psf_instrument_alloc () ;
		VASSUME (psf->instrument != NULL) ;
		{ signed char nd_bn = nondet_schar () ; psf->instrument->basenote = nd_bn ; }
		} ;
	if (nd_meta & 4)
	{	uint32_t nd_chs = nondet_uint () ;
		psf->broadcast_16k = broadcast_var_alloc () ;
		VASSUME (psf->broadcast_16k != NULL) ;
		VASSUME (nd_chs <= sizeof (psf->broadcast_16k->coding_history)) ;
		psf->broadcast_16k->coding_history_size = nd_chs ;
		} ;
	if (nd_meta & 8)
	{	uint32_t nd_tts = nondet_uint () ;
		psf->cart_16k = cart_var_alloc () ;
		VASSUME (psf->cart_16k != NULL) ;
		VASSUME (nd_tts <= sizeof (psf->cart_16k->tag_text)) ;
		psf->cart_16k->tag_text_size = nd_tts ;
		} ;
	if (nd_meta & 16)
	{	psf->channel_map = calloc (CH, sizeof (int)) ;
		VASSUME (psf->channel_map != NULL) ;
		psf->channel_map [0] = SF_CHANNEL_MAP_LEFT ;
		psf->channel_map [CH - 1] = SF_CHANNEL_MAP_RIGHT ;
		} ;
	if (nd_meta & 32)
	{	psf->peak_info = peak_info_calloc (CH) ;
		VASSUME (psf->peak_info != NULL) ;
		psf->peak_info->peaks [0].value = 0.5 ;
		} ;
	if (nd_meta & 64)
	{	psf->loop_info = calloc (1, sizeof (SF_LOOP_INFO)) ;
		VASSUME (psf->loop_info != NULL) ;
		} ;
	{	/* parse log: short symbolic NUL-terminated text */
		ND_FILL (nd_plog, 6, schar) ;
		for (k = 0 ; k < 6 ; k++)
			psf->parselog.buf [k] = nd_plog [k] ;
		psf->parselog.buf [6] = 0 ;
		psf->parselog.indx = 6 ;
		/* the library-wide log a failed open leaves behind (read by SFC_GET_LOG_INFO on a NULL handle) */
		for (k = 0 ; k < 6 ; k++)
			sf_parselog [k] = nd_plog [5 - k] ;
		sf_parselog [6] = 0 ;
	}

	VASSUME (nd_datasize >= 0 && nd_datasize <= DMAX) ;
#ifdef KF_cmdstr0
	if (CMD == SFC_GET_LIB_VERSION || CMD == SFC_GET_LOG_INFO)
		VASSUME (nd_datasize >= 1) ;
#endif
#ifdef PROBE_cmdstr0
	VASSUME (nd_datasize == 0) ;
#endif
	if (nd_nulldata)
		data = NULL ;
	else
	{	data = malloc (nd_datasize) ;
		VASSUME (data != NULL) ;
		} ;

	hsnap_take (psf, &before) ;
	msnap_take (psf, &mbefore) ;
	err_before = psf->error ;

	ret = sf_command (nd_nullh ? NULL : (SNDFILE *) psf, CMD, data, nd_datasize) ;

	/* string-returning commands NUL-terminate inside datasize >= 1 */
	if ((CMD == SFC_GET_LIB_VERSION || CMD == SFC_GET_LOG_INFO) && data != NULL && nd_datasize >= 1)
	{	int found = 0 ;
		for (k = 0 ; k < DMAX ; k++)
			if (k < nd_datasize && data [k] == 0)
				found = 1 ;
		VASSERT (found, "string command NUL-terminates within datasize") ;
		VASSERT (ret >= 0 && ret < nd_datasize, "string command returns the length stored") ;
		} ;
#if QUERY
	/* query commands are pure */
	if (! nd_nullh)
	{	VASSERT (hsnap_same (psf, &before), "query command leaves positions, frame count, settings unchanged") ;
		VASSERT (msnap_same (psf, &mbefore), "query command leaves metadata and scaling state unchanged") ;
		VASSERT (g_rpos == mbefore.rpos || g_rpos == psf->read_current, "query command restores the codec read position") ;
		VASSERT (g_hdr_calls == 0, "query command does not rewrite the header") ;
		} ;
#endif
	if (nd_nullh)
		VASSERT (hsnap_same (psf, &before) && psf->error == err_before, "NULL handle: no handle is touched") ;
	else if (CMD == SFC_UPDATE_HEADER_NOW)
		VASSERT (g_hdr_calls == 1 && g_hdr_calc == SF_TRUE, "SFC_UPDATE_HEADER_NOW rewrites the header once, with the lengths recalculated from what has been written (whatever the auto-update setting)") ;
	(void) ret ;
	WITNESS_END () ;
	return 0 ;
}
