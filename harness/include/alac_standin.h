/* alac_standin.h - for harnesses that #include "alac.c" with the ALAC bit-stream library (src/ALAC) replaced by
 * contract stubs: small stand-ins for the library's state structs (about 100 KB of work arrays that only the library
 * touches), so that ALAC_PRIVATE fits the symbolic executor. src/alac.c is compiled unchanged against these
 * declarations (it only reads decoder.mNumChannels). CBMC mode only - native replay uses the real headers/library. */
#ifndef ALAC_STANDIN_H
#define ALAC_STANDIN_H
#if defined (VERIF_CBMC) || defined (__CPROVER__)
#define ALAC_CODEC_H
#include <stdint.h>
#include "ALAC/ALACAudioTypes.h"
#define ALAC_FRAME_LENGTH 4096
struct BitBuffer ;
typedef struct alac_decoder_s { uint32_t mNumChannels ; int32_t small_state [4] ; } ALAC_DECODER ;
typedef struct alac_encoder_s { uint32_t mNumChannels ; int32_t small_state [4] ; } ALAC_ENCODER ;
int32_t alac_decoder_init (ALAC_DECODER *p, void *inMagicCookie, uint32_t inMagicCookieSize) ;
int32_t alac_encoder_init (ALAC_ENCODER *p, uint32_t samplerate, uint32_t channels, uint32_t format_flags, uint32_t frameSize) ;
int32_t alac_decode (ALAC_DECODER *, struct BitBuffer *bits, int32_t *sampleBuffer, uint32_t numSamples, uint32_t *outNumSamples) ;
int32_t alac_encode (ALAC_ENCODER *p, uint32_t numSamples, const int32_t *theReadBuffer, unsigned char *theWriteBuffer, uint32_t *ioNumBytes) ;
uint32_t alac_get_magic_cookie_size (uint32_t inNumChannels) ;
void alac_get_magic_cookie (ALAC_ENCODER *p, void *config, uint32_t *ioSize) ;
#endif
#endif
