/* C02 H6: the read/write WRAPPERS of the float and double file formats
 * (src/float32.c, src/double64.c: host_read_X2Y / host_write_Y2X as installed
 * by the real X_init) - the scale each one selects from the handle's flags:
 *   write int / short:  SFC_SET_SCALE_INT_FLOAT_WRITE off -> the integer value
 *                       itself, on -> value / 2^31 resp. / 2^15;
 *   read int / short:   SFC_SET_SCALE_FLOAT_INT_READ off -> the stored value
 *                       rounded, on -> stored * (2^31 resp. 0x7FFF) / file
 *                       maximum; with SFC_SET_CLIPPING the clipping kernel.
 * One item, symbolic value and flags; what reaches the file (resp. the
 * caller) is compared with the documented scale applied by the conversion
 * kernel (the kernels themselves are checked in fconv.c).
 */
#include "verif.h"
#include <stdlib.h>
#include <string.h>
#include <float.h>
#include CODEC_FILE
#include "memfile.h"

static SF_PRIVATE g_psf ;

int
main (void)
{	SF_PRIVATE *psf = &g_psf ;
	int nd_flag = nondet_int (), nd_clip = nondet_int (), rc ;
	sf_count_t w ;

	psf->file.filedes = 0 ;
	psf->sf.channels = 1 ;
	psf->sf.format = FMT ;
	psf->endian = SF_ENDIAN_LITTLE ;
	psf->norm_float = SF_TRUE ; psf->norm_double = SF_TRUE ;
	psf->bytewidth = sizeof (FT) ;
	VASSUME (nd_flag == SF_TRUE || nd_flag == SF_FALSE) ;
	VASSUME (nd_clip == SF_TRUE || nd_clip == SF_FALSE) ;
	psf->add_clipping = nd_clip ;
	mf [0].len = 0 ; mf [0].pos = 0 ;
#if defined (SEL_WR_INT) || defined (SEL_WR_SHORT)
	psf->file.mode = SFM_WRITE ;
	psf->scale_int_float = nd_flag ;
	rc = CODEC_INIT (psf) ;
	VASSERT (rc == 0, "codec init") ;
	{	FT stored ;
#ifdef SEL_WR_INT
		int nd_x = nondet_int () ;
		FT scale = (nd_flag == SF_FALSE) ? 1.0 : 1.0 / (8.0 * 0x10000000) ;
		w = psf->write_int (psf, &nd_x, 1) ;
#else
		short nd_x = nondet_short () ;
		FT scale = (nd_flag == SF_FALSE) ? 1.0 : 1.0 / 0x8000 ;
		w = psf->write_short (psf, &nd_x, 1) ;
#endif
		VASSERT (w == 1, "item accepted") ;
		memcpy (&stored, mf [0].data, sizeof (FT)) ;
		VASSERT (stored == scale * nd_x, "integer writes: the value itself, or value / full scale (2^31, 2^15) when SFC_SET_SCALE_INT_FLOAT_WRITE is on") ;
	}
#else
	psf->file.mode = SFM_READ ;
	psf->float_int_mult = nd_flag ;
	psf->float_max = 1.0 ;
	{	FT nd_v = ND_FT () ;
		VASSUME (nd_v == nd_v && nd_v > -1.0e9 && nd_v < 1.0e9) ;
		memcpy (mf [0].data, &nd_v, sizeof (FT)) ;
		mf [0].len = sizeof (FT) ; mf [0].len_min = sizeof (FT) ;
		rc = CODEC_INIT (psf) ;
		VASSERT (rc == 0, "codec init") ;
		mf [0].pos = 0 ;
#ifdef SEL_RD_INT
		{	int out = 0, expect = 0 ;
			FT scale = (nd_flag == SF_FALSE) ? 1.0 : 2147483648.0f / 1.0 ;
			if (nd_clip == SF_FALSE) VASSUME (scale * nd_v < 2147483647.0 && scale * nd_v > -2147483647.0) ;
			w = psf->read_int (psf, &out, 1) ;
			if (nd_clip) X2I_CLIP (&nd_v, 1, &expect, scale) ; else X2I (&nd_v, 1, &expect, scale) ;
			VASSERT (w == 1 && out == expect, "int reads: stored value, or stored * 2^31 / file maximum when SFC_SET_SCALE_FLOAT_INT_READ is on; clipping kernel iff SFC_SET_CLIPPING") ;
		}
#else
		{	short out = 0, expect = 0 ;
			FT scale = (nd_flag == SF_FALSE) ? 1.0 : 0x7FFF / 1.0 ;
			if (nd_clip == SF_FALSE) VASSUME (scale * nd_v < 2147483647.0 && scale * nd_v > -2147483647.0) ;
			w = psf->read_short (psf, &out, 1) ;
			if (nd_clip) X2S_CLIP (&nd_v, 1, &expect, scale) ; else X2S (&nd_v, 1, &expect, scale) ;
			VASSERT (w == 1 && out == expect, "short reads: stored value, or stored * 0x7FFF / file maximum when SFC_SET_SCALE_FLOAT_INT_READ is on; clipping kernel iff SFC_SET_CLIPPING") ;
		}
#endif
	}
#endif
	WITNESS_END () ;
	return 0 ;
}
