from vf import H

def ima_harnesses(sels=("SEL_SEEKREAD", "SEL_WRITE")):
    out = []
    for layout, lname in ((0, "wav"), (1, "aiff")):
        for ch in (1, 2):
            for sel in sels:
                spb, bs = (9, 8 * ch) if layout == 0 else (8, 6)
                d = {sel: 1, "LAYOUT": layout, "CH": ch, "SPB": spb, "BS": bs, "MF_CAP": 8, "MF_MAXIO": 8, "MF_NFILES": 2, "MF_ABSTRACT": 1, "MEMCPY_MAX": (2 * spb + 4) * ch * 2}
                big = 3 * spb * ch + 4
                out.append(H("blk.ima_%s.ch%d.%s" % (lname, ch, sel[4:].lower()), "L3/blk_ima.c", link=["common"], stubs=["psf_log_printf", "psf_memset"], defines=d,
                             unwind=8, unwindset=["main.%d:%d" % (i, big) for i in range(12)] + ["stub_decode.0:%d" % (spb * ch + 1), "stub_decode.1:%d" % (spb * ch + 1),
                                                  "stub_encode.0:%d" % (spb * ch + 1), "stub_encode.1:%d" % (spb * ch + 1), "ima_read_block.0:5", "ima_write_block.0:5",
                                                  "ima_read_s.0:3", "ima_write_s.0:3", "psf_memset.0:65", "memcpy.0:%d" % ((2 * spb + 4) * ch * 2 + 1), "memset.0:%d" % ((2 * spb + 4) * ch * 2 + 1)],
                             checks="mem", include_env=("log_stub", "memfile", "memset_model", "memcpy_model"), timeout=600 if ch == 1 else 3000,
                             tiers=("quick", "thorough") if ch == 1 else ("thorough",),
                             functions=["ima_read_s", "ima_read_block", "wavlike_ima_seek", "aiff_ima_seek", "ima_write_s", "ima_write_block", "ima_close"],
                             bounds="3 blocks of %d samples per channel, %d channel(s), block transformer = K-block contract stub; read p <= B+2, seek to any k in [0, F], read n <= B+2; write n <= B+3 split at any j" % (spb, ch)))
    return out


def ms_harnesses(sels=("SEL_SEEKREAD", "SEL_INIT")):
    out = []
    for ch in (1, 2):
        for sel in sels:
            bs = 9 if ch == 1 else 16
            spb = 2 * (bs - 6 * ch) // ch
            d = {sel: 1, "CH": ch, "BS": bs, "BS_INIT": 32 * ch, "MF_CAP": 4 + 3 * bs + 2, "MF_MAXIO": bs + 2, "MF_NFILES": 2, "MEMCPY_MAX": max((3 * spb + 4) * ch * 2, 64)}
            out.append(H("blk.ms.ch%d.%s" % (ch, sel[4:].lower()), "L3/blk_ms.c", link=["common"], stubs=["psf_log_printf", "psf_memset"], defines=d,
                         unwind=max(3 * spb * ch + 6, 4 + 3 * bs + 3), unwindset=["psf_fread.0:%d" % (bs + 3), "psf_memset.0:65", "memcpy.0:%d" % (max((3 * spb + 4) * ch * 2, 64) + 1),
                                                              "memset.0:%d" % (max((3 * spb + 4) * ch * 2, 64) + 1), "msadpcm_read_block.0:6", "msadpcm_read_s.0:3"],
                         checks="mem", include_env=("log_stub", "memfile", "memset_model", "memcpy_model"), timeout=900, fsa=200,
                         tiers=("quick", "thorough") if ch == 1 else ("thorough",),
                         functions=["msadpcm_read_s", "msadpcm_read_block", "msadpcm_seek", "msadpcm_decode_block", "wavlike_msadpcm_init"],
                         bounds="3 blocks of %d bytes (%d samples), %d channel(s), concrete position-distinct file bytes; read p <= B+2, seek to any k in [0, F], read n <= B+2" % (bs, spb, ch)))
    return out


def sds_harnesses(sels=("SEL_FLUSH", "SEL_HEADER")):
    out = []
    for sel in sels:
        for kf, blk in ((1, 0), (10, 1), (30, 0), (59, 2)):
            d = {sel: 1, "K_FIXED": kf, "BLK_FIXED": blk, "MF_CAP": 0x15 + 4 * 127 + 2, "MF_MAXIO": 128, "MEMCPY_MAX": 260}
            out.append(H("blk.sds16.%s.k%d" % (sel[4:].lower(), kf), "L3/blk_sds.c", link=["common"], stubs=["psf_log_printf", "psf_memset"], defines=d,
                         unwind=130, unwindset=["psf_fread.0:129", "psf_fwrite.0:129", "psf_memset.0:65", "memcpy.0:261", "memset.0:261", "psf_binheader_writef.1:40"],
                         checks="mem", include_env=("log_stub", "memfile", "memset_model", "memcpy_model", "snprintf_model"), timeout=900, fsa=700,
                         tiers=("quick", "thorough") if kf in (10, 59) else ("thorough",),
                         functions=["sds_close", "sds_write_header", "sds_2byte_write", "sds_2byte_read"],
                         bounds="16-bit SDS, %d complete packet(s) before, pending packet with fill level %d (grid), all sample values symbolic" % (blk, kf)))
    return out


def dwvw_harnesses():
    out = []
    for bitw, t, rd, wr, lowzero in ((16, "short", "dwvw_read_s", "dwvw_write_s", 0), (12, "short", "dwvw_read_s", "dwvw_write_s", 4),
                                     (24, "int", "dwvw_read_i", "dwvw_write_i", 8), (16, "int", "dwvw_read_i", "dwvw_write_i", 16)):
        for ns in (1, 2, 3):
            d = {"BITW": bitw, "T": t, "NDT": t, "READ_FN": rd, "WRITE_FN": wr, "LOWZERO": lowzero, "NS": ns, "MF_CAP": 40, "MF_MAXIO": 40, "MF_NFILES": 2,
                 "MEMCPY_MAX": 320, "LIBSNDFILE_VERIF_BUFFER_LEN": 16}
            out.append(H("dwvw%d.%s.n%d" % (bitw, t, ns), "L3/dwvw_rt.c", link=["common"], stubs=["psf_log_printf", "psf_memset"], defines=d,
                         unwind=34, unwindset=["psf_fread.0:41", "psf_fwrite.0:41", "psf_memset.0:65", "memcpy.0:321", "memset.0:321", "main.1:42", "main.2:42"],
                         checks="mem", solver="kissat", witness="twin", include_env=("log_stub", "memfile", "memset_model", "memcpy_model"), timeout=1800,
                         tiers=("thorough",),
                         functions=["dwvw_write_*", "dwvw_encode_data", "dwvw_encode_store_bits", "dwvw_close", "dwvw_read_*", "dwvw_decode_data", "dwvw_decode_load_bits", "dwvw_read_reset"],
                         bounds="%d-bit DWVW, %d sample(s) (grid), every sample value symbolic, split point symbolic" % (bitw, ns)))
    return out
