#!/usr/bin/env python3
"""setup: offline; warms the config.h cache (cmake configure of /repo) and checks the tools exist."""
import os, sys, shutil
sys.path.insert(0, os.path.join(os.path.dirname(os.path.abspath(__file__)), "lib"))
import vf
for t in ("cbmc", "goto-cc", "goto-instrument", "kissat", "gcc", "cmake"):
    if not shutil.which(t):
        print("missing tool:", t); sys.exit(1)
c = vf.Ctx()
print("config.h at", c.cfgdir)
c.cleanup()
