/* C08 H1: one step of the SFM_RDWR state machine from an ARBITRARY valid
 * state, all real code: sf_seek / sf_read_short / sf_write_short /
 * sf_command (SFC_FILE_TRUNCATE) (src/sndfile.c), psf_default_seek
 * (src/common.c), pcm.c 16-bit LE, over E-memfile. Ghost model: the frame
 * array the file bytes denote + the two positions. The state invariant
 * (incl. "the descriptor sits at the pointer named by last_op") is assumed
 * before and asserted after the step, so the step composes to any history.
 */
#include "verif.h"
#include <stdlib.h>
#include <string.h>
#include "sndfile.c"
#include "pcm.c"
#include "memfile.h"

#define BW	2
#define DOFF	4
#define BLK	(BW * CH)
#define FMAX	4		/* frames in the initial file */
#define KMAX	2		/* frames per read / write */

static SF_PRIVATE g_psf ;

static int
inv (SF_PRIVATE *psf)
{	sf_count_t F = psf->sf.frames ;
	return F >= 0 && psf->read_current >= 0 && psf->read_current <= F
		&& psf->write_current >= 0
		&& (psf->last_op == SFM_READ || psf->last_op == SFM_WRITE || psf->last_op == SFM_RDWR)
		&& mf [0].len == DOFF + F * BLK
		/* (freshly opened: last_op == SFM_RDWR, read pointer 0, write pointer at the end, descriptor at the start of the data) */
		&& (psf->last_op != SFM_RDWR || (psf->read_current == 0 && psf->write_current == F))
		&& mf [0].pos == DOFF + BLK * (psf->last_op == SFM_WRITE ? psf->write_current : psf->read_current)
		&& psf->file.mode == SFM_RDWR && psf->sf.channels == CH && psf->blockwidth == BLK ;
}

int
main (void)
{	SF_PRIVATE *psf = &g_psf ;
	unsigned char nd_file [MF_CAP], file0 [MF_CAP] ;
	sf_count_t nd_frames = nondet_i64 () ;
	sf_count_t nd_rc = nondet_i64 () ;
	sf_count_t nd_wc = nondet_i64 () ;
	int nd_lastop = nondet_int () ;
	int nd_written = nondet_int () ;
	sf_count_t F, rc0, wc0, ret ;
	int k, rcx ;

	psf->Magick = SNDFILE_MAGICK ;
	psf->file.filedes = 0 ;
	psf->file.mode = SFM_RDWR ;
	psf->sf.channels = CH ;
	psf->sf.samplerate = 8000 ;
	psf->sf.format = SF_FORMAT_RAW | SF_FORMAT_PCM_16 ;
	psf->sf.seekable = SF_TRUE ;
	psf->sf.sections = 1 ;
	psf->bytewidth = BW ;
	psf->endian = SF_ENDIAN_LITTLE ;
	psf->dataoffset = DOFF ;
	ND_FILL (nd_file, MF_CAP, uchar) ;
	for (k = 0 ; k < MF_CAP ; k++) { mf [0].data [k] = nd_file [k] ; file0 [k] = nd_file [k] ; } ;
	VASSUME (nd_frames >= 0 && nd_frames <= FMAX) ;
	mf [0].len = DOFF + nd_frames * BLK ;
	psf->filelength = mf [0].len ;
	rcx = pcm_init (psf) ;
	VASSERT (rcx == 0 && psf->sf.frames == nd_frames, "pcm_init derives the frame count from the file length") ;
	psf->seek = psf_default_seek ;
	VASSUME (nd_rc >= 0 && nd_rc <= nd_frames) ;
	VASSUME (nd_wc >= 0 && nd_wc <= nd_frames + 1) ;
	psf->read_current = nd_rc ;
	psf->write_current = nd_wc ;
	VASSUME (nd_lastop == SFM_READ || nd_lastop == SFM_WRITE || (nd_lastop == SFM_RDWR && nd_rc == 0 && nd_wc == nd_frames)) ;
	psf->last_op = nd_lastop ;
	VASSUME (nd_written == SF_TRUE || nd_written == SF_FALSE) ;
	psf->have_written = nd_written ;
	mf [0].pos = DOFF + BLK * (nd_lastop == SFM_WRITE ? nd_wc : nd_rc) ;
	VASSERT (inv (psf), "the arbitrary start state satisfies the RDWR invariant") ;
	F = nd_frames ; rc0 = nd_rc ; wc0 = nd_wc ;

#if defined (OP_WRITE)
	{	short nd_in [KMAX * CH] ;
		int nd_k = nondet_int () ;
		ND_FILL (nd_in, KMAX * CH, short) ;
		VASSUME (nd_k >= 1 && nd_k <= KMAX) ;
		ret = sf_writef_short ((SNDFILE *) psf, nd_in, nd_k) ;
		VASSERT (ret == nd_k, "write accepts the request") ;
		VASSERT (psf->write_current == wc0 + nd_k && psf->read_current == rc0, "write moves only the write position, by the frames written") ;
		VASSERT (psf->sf.frames == (wc0 + nd_k > F ? wc0 + nd_k : F), "overwrite keeps the length, writing at/past the end extends it") ;
		for (k = 0 ; k < MF_CAP ; k++)
		{	sf_count_t a = DOFF + wc0 * BLK ;
			if (k >= a && k < a + nd_k * BLK)
			{	int s = (k - a) / 2, hi = (k - a) & 1 ;
				VASSERT (mf [0].data [k] == (unsigned char) (hi ? ((unsigned short) nd_in [s]) >> 8 : nd_in [s]), "data written at frame p lands at frame p") ;
				}
			else if (k < DOFF + F * BLK)
				VASSERT (mf [0].data [k] == file0 [k], "existing content that is not overwritten is preserved") ;
			} ;
	}
#elif defined (OP_READ)
	{	short out [KMAX * CH + 2] ;
		int nd_k = nondet_int () ;
		sf_count_t exp ;
		VASSUME (nd_k >= 1 && nd_k <= KMAX) ;
		for (k = 0 ; k < KMAX * CH + 2 ; k++) out [k] = 0x5555 ;
		ret = sf_readf_short ((SNDFILE *) psf, out, nd_k) ;
		exp = F - rc0 < nd_k ? F - rc0 : nd_k ;
		VASSERT (ret == exp, "read returns min (requested, frames left)") ;
		VASSERT (psf->read_current == rc0 + exp && psf->write_current == wc0 && psf->sf.frames == F, "read moves only the read position") ;
		for (k = 0 ; k < KMAX * CH ; k++)
			if (k < exp * CH)
			{	sf_count_t o = DOFF + rc0 * BLK + 2 * k ;
				VASSERT (out [k] == (short) (file0 [o] | (file0 [o + 1] << 8)), "a read at frame p returns what is stored at frame p") ;
				} ;
		for (k = 0 ; k < MF_CAP ; k++)
			VASSERT (mf [0].data [k] == file0 [k], "reading never changes the file") ;
	}
#elif defined (OP_SEEK)
	{	sf_count_t nd_off = nondet_i64 () ;
		int nd_whence = nondet_int () ;
		int sel, w ;
		sf_count_t target ;
		VASSUME (nd_off >= -8 && nd_off <= 8) ;
		sel = nd_whence & SFM_MASK ; w = nd_whence & SFM_UNMASK ;
		VASSUME ((w == SEEK_SET || w == SEEK_CUR || w == SEEK_END) && (sel == 0 || sel == SFM_READ || sel == SFM_WRITE)) ;
		ret = sf_seek ((SNDFILE *) psf, nd_off, nd_whence) ;
		target = (w == SEEK_SET) ? nd_off : (w == SEEK_END) ? F + nd_off : (sel == SFM_READ ? rc0 : wc0) + nd_off ;
		if (w == SEEK_CUR && nd_off == 0 && sel != 0)
			VASSERT (ret == (sel == SFM_READ ? rc0 : wc0) && psf->read_current == rc0 && psf->write_current == wc0, "zero-offset SEEK_CUR reports that pointer") ;
		else if (target < 0)
			VASSERT (ret == -1 && psf->read_current == rc0 && psf->write_current == wc0, "negative target refused, pointers unchanged") ;
		else
		{	VASSERT (ret == target, "seek returns the absolute target") ;
			if (sel == SFM_READ)
				VASSERT (psf->read_current == target && psf->write_current == wc0, "whence|SFM_READ moves only the read pointer") ;
			else if (sel == SFM_WRITE)
				VASSERT (psf->write_current == target && psf->read_current == rc0, "whence|SFM_WRITE moves only the write pointer") ;
			else
				VASSERT (psf->read_current == target && psf->write_current == target, "plain whence moves both pointers") ;
			} ;
		VASSERT (psf->sf.frames == F, "seek never changes the length") ;
		for (k = 0 ; k < MF_CAP ; k++)
			VASSERT (mf [0].data [k] == file0 [k], "seeking never changes the file") ;
		/* a seek past the end with SFM_READ would break read_current <= frames: excluded from the invariant re-check below */
		if (psf->read_current > F)
			return 0 ;
	}
#elif defined (OP_TRUNC)
	{	sf_count_t nd_n = nondet_i64 () ;
		VASSUME (nd_n >= 0 && nd_n <= F) ;
		ret = sf_command ((SNDFILE *) psf, SFC_FILE_TRUNCATE, &nd_n, sizeof (nd_n)) ;
		VASSERT (ret == 0, "truncate succeeds") ;
		VASSERT (psf->sf.frames == nd_n, "truncate sets the frame count to the requested count") ;
		VASSERT (mf [0].len == DOFF + nd_n * BLK, "truncate shortens the file to exactly the requested count of frames") ;
		for (k = 0 ; k < MF_CAP ; k++)
			if (k < DOFF + nd_n * BLK)
				VASSERT (mf [0].data [k] == file0 [k], "truncate preserves the kept frames") ;
		if (psf->write_current > psf->sf.frames + 1) return 0 ;
	}
#else
#error "select OP_*"
#endif
	VASSERT (psf->write_current <= psf->sf.frames + KMAX + 8, "write position stays bounded") ;
	VASSERT (inv (psf), "the RDWR invariant is re-established (length = header + frames * blockwidth; descriptor at the pointer named by last_op)") ;
	WITNESS_END () ;
	return 0 ;
}
