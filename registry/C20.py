from vf import H

HARNESSES = []
_fn = ["ulaw2s_array", "ulaw2i_array", "alaw2s_array", "alaw2i_array", "s2ulaw_array", "s2alaw_array",
       "i2ulaw_array", "i2alaw_array", "ulaw_decode[]", "ulaw_encode[]", "alaw_decode[]", "alaw_encode[]"]
for sel, un in (("H_DECODE", 3), ("H_ENCODE_S", 3), ("H_ENCODE_I", 3), ("H_IDENT", 3), ("H_STRIDE", 5)):
    HARNESSES.append(H("g711." + sel, "C20/g711.c", link=[], defines={sel: 1}, unwind=un, checks="arith",
                       include_env=(), functions=_fn,
                       bounds="all 256 codes / all 2^16 shorts / all 2^32 ints symbolic; count 1 (3 in H_STRIDE)"))

for law in ("ulaw", "alaw"):
    for t, tn in (("f", "float"), ("d", "double")):
        d = {"FD_T": tn, "READ_FN": "%s_read_%s2%s" % (law, law, t), "WRITE_FN": "%s_write_%s2%s" % (law, t, law), "MF_CAP": 16, "MF_MAXIO": 16, "LIBSNDFILE_VERIF_BUFFER_LEN": 16}
        if law == "ulaw": d["IS_ULAW"] = 1
        HARNESSES.append(H("g711fd.%s.%s" % (law, tn), "C20/g711_fd.c", link=["common"], stubs=["psf_log_printf"], defines=d, unwind=6, unwindset=["psf_fread.0:17", "psf_fwrite.0:17"], checks="mem",
                           solver="cadical", include_env=("log_stub", "memfile", "libm_model"), timeout=300, functions=[d["READ_FN"], d["WRITE_FN"], "%s2%s_array" % (law, t), "%s2%s_array" % (t, law)],
                           bounds="all 256 codes, default normalisation, one item"))

# H4: ADPCM block decoders vs independent reference decoders, every block byte symbolic
_ADPCM = [  # (selector, file, channels, block bytes, samples per block, tiers, timeout, predictor number on the grid or None)
    ("SEL_IMA_WAV", "ima_adpcm.c", 1, 8, 9, ("quick", "thorough"), 600, None),
    ("SEL_IMA_WAV", "ima_adpcm.c", 2, 16, 9, ("thorough",), 3000, None),
    ("SEL_IMA_WAV", "ima_adpcm.c", 1, 12, 17, ("thorough",), 3000, None),
]
for bp in (0, 1, 2, 3, 4, 5, 6, 7, 200):   # MS ADPCM: valid predictor numbers 0..6, invalid 7 and 200
    _ADPCM.append(("SEL_MS", "ms_adpcm.c", 1, 9, 6, ("quick", "thorough") if bp in (1, 5, 200) else ("thorough",), 900, bp))
_ADPCM.append(("SEL_MS", "ms_adpcm.c", 2, 16, 4, ("thorough",), 3000, 3))
for sel, cfile, ch, bs, spb, tiers, to, bp in _ADPCM:
    d = {sel: 1, "CODEC_FILE": '"%s"' % cfile, "CH": ch, "BLOCKSIZE": bs, "SPB": spb, "MF_CAP": bs + 2, "MF_MAXIO": bs + 2}
    if bp is not None:
        d["BPRED"] = bp
    HARNESSES.append(H("adpcm.%s.ch%d.b%d%s" % (sel[4:].lower(), ch, bs, "" if bp is None else ".bpred%d" % bp), "C20/adpcm.c", link=["common"],
                       stubs=["psf_log_printf", "psf_memset"], defines=d,
                       unwind=max(spb * ch, bs) + 3, unwindset=["psf_fread.0:%d" % (bs + 3), "psf_memset.0:65"], checks="mem", solver="kissat", witness="twin",
                       include_env=("log_stub", "memfile", "memset_model"), timeout=to, tiers=tiers,
                       functions=["wavlike_ima_decode_block" if "IMA" in sel else "msadpcm_decode_block", "msadpcm_get_bpred", "clamp_ima_step_index"],
                       bounds="%d channel(s), one block of %d bytes = %d samples per channel, every byte symbolic (incl. invalid header fields)%s" % (
                           ch, bs, spb, "" if bp is None else "; predictor number %d" % bp)))

# IEEE-754 serialisers (portable "broken float" paths) against the native representation; exponent field on the grid
for ftag, cfile, isd, exps in (("double64", "double64.c", 1, (1023, 1024, 1022, 1, 2046, 1151, 895, 1200)), ("float32", "float32.c", 0, (127, 128, 126, 1, 254, 200, 60))):
    for e in exps:
        for sel in ("SEL_READ", "SEL_WRITE"):
            if sel == "SEL_WRITE" and e in (1, 895):
                continue        # the writers store |x| < 1e-30 as 0 (their stated threshold): outside the exact-bytes claim
            d = {"IEEE_FILE": '"%s"' % cfile, "EXP": e, sel: 1, "MF_CAP": 16}
            if isd: d["IS_DOUBLE"] = 1
            HARNESSES.append(H("ieee.%s.%s.e%d" % (ftag, sel[4:].lower(), e), "C20/ieee.c", link=["common"], stubs=["psf_log_printf"], defines=d, unwind=10, checks="mem", solver="cadical",
                               include_env=("log_stub", "memfile", "libm_model"), timeout=400,
                               functions=["%s_le_read / _be_read" % ftag if sel == "SEL_READ" else "%s_le_write / _be_write" % ftag],
                               bounds="biased exponent field %d (normal numbers; writers only for |x| >= 1e-30, below which they store 0), sign and every mantissa bit symbolic, both byte orders" % e))
META = {
    "assumptions": [],
    "outside": [],
}
