/* C16 H3: metadata setters followed by close. On a freshly opened write handle
 * (nothing written yet) TWO setter calls from the grid (SET_A, SET_B in
 * {CUE, INST, CHANMAP, STR}: the same item set twice, or two different
 * items) with symbolic contents, then the REAL psf_close on the heap handle.
 * CBMC --memory-leak-check: whatever the setters allocated, replaced or
 * refused, nothing survives the close.
 */
#include "verif.h"
#include <stdlib.h>
#include <string.h>
#include "sndfile.c"
#include "memfile.h"

#define K_CUE 1
#define K_INST 2
#define K_CHANMAP 3
#define K_STR 4

static SF_PRIVATE g_static ;
static int g_hdr_calls ;
static int stub_write_header (SF_PRIVATE *psf, int calc) { (void) psf ; (void) calc ; g_hdr_calls ++ ; return 0 ; }

static int
do_set (SF_PRIVATE *psf, int kind, int which)
{	switch (kind)
	{	case K_CUE :
		{	SF_CUES_VAR (2) cues ;
			uint32_t nd_cc = nondet_uint () ;
			int nd_pos = nondet_int () ;
			memset (&cues, 0, sizeof (cues)) ;
			VASSUME (nd_cc <= 3) ;		/* 3 > capacity of the block: psf_cues_dup refuses it */
			cues.cue_count = nd_cc ;
			cues.cue_points [0].sample_offset = nd_pos ;
			cues.cue_points [1].indx = which ;
			return sf_command ((SNDFILE *) psf, SFC_SET_CUE, &cues, sizeof (cues)) ;
		}
		case K_INST :
		{	SF_INSTRUMENT inst ;
			int nd_lc = nondet_int () ;
			memset (&inst, 0, sizeof (inst)) ;
			inst.loop_count = nd_lc ;
			inst.basenote = (char) which ;
			return sf_command ((SNDFILE *) psf, SFC_SET_INSTRUMENT, &inst, sizeof (inst)) ;
		}
		case K_CHANMAP :
		{	int map [2] ;
			int nd_m0 = nondet_int (), nd_m1 = nondet_int () ;
			map [0] = nd_m0 ; map [1] = nd_m1 ;
			return sf_command ((SNDFILE *) psf, SFC_SET_CHANNEL_MAP_INFO, map, sizeof (map)) ;
		}
		case K_STR :
		{	char txt [4] ;
			char nd_c0 = (char) nondet_uchar (), nd_c1 = (char) nondet_uchar () ;
			txt [0] = nd_c0 ; txt [1] = nd_c1 ; txt [2] = 0 ; txt [3] = 0 ;
			return sf_set_string ((SNDFILE *) psf, which ? SF_STR_ARTIST : SF_STR_TITLE, txt) ;
		}
		} ;
	return 0 ;
}

int
main (void)
{	SF_PRIVATE *psf = &g_static, *hp ;
	int rc ;

	{	static const SF_PRIVATE zero_psf ;
		*psf = zero_psf ;
	}
	psf->Magick = SNDFILE_MAGICK ;
	psf->file.filedes = 0 ;
	psf->rsrc.filedes = -1 ;
	psf->file.mode = SFM_WRITE ;
	psf->sf.channels = 2 ; psf->sf.samplerate = 8000 ; psf->sf.format = SF_FORMAT_WAV | SF_FORMAT_PCM_16 ;
	psf->sf.seekable = SF_TRUE ; psf->sf.sections = 1 ;
	psf->have_written = SF_FALSE ;
	psf->write_header = stub_write_header ;
	psf->strings.flags = SF_STR_ALLOW_START | SF_STR_ALLOW_END ;

	(void) do_set (psf, SET_A, 0) ;
	(void) do_set (psf, SET_B, 1) ;

	hp = malloc (sizeof (SF_PRIVATE)) ;
	VASSUME (hp != NULL) ;
	*hp = *psf ;
	rc = psf_close (hp) ;
	VASSERT (rc == 0, "close returns 0 when the underlying close succeeds") ;
	VASSERT (mf [0].n_close == 1, "the descriptor is closed exactly once") ;
	WITNESS_END () ;
	return 0 ;
}
