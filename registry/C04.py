from vf import H
import importlib.util, os


def _load(n):
    spec = importlib.util.spec_from_file_location("reg_%s_x" % n, os.path.join(os.path.dirname(os.path.abspath(__file__)), n + ".py"))
    m = importlib.util.module_from_spec(spec)
    spec.loader.exec_module(m)
    return m


ALL_UNITS = _load("allunits").ALL_UNITS

# (tag, container file, open function, format word, exact rate?, pad frames allowed, MF_CAP (>= header size), extra defines)
GRID = [
    ("wav.pcm16", "wav.c", "wav_open", "(SF_FORMAT_WAV|SF_FORMAT_PCM_16)", 1, 0, 256, {}),
    ("wav.pcmu8", "wav.c", "wav_open", "(SF_FORMAT_WAV|SF_FORMAT_PCM_U8)", 1, 1, 256, {}),
    ("wav.pcm24", "wav.c", "wav_open", "(SF_FORMAT_WAV|SF_FORMAT_PCM_24)", 1, 1, 256, {}),
    ("wav.float", "wav.c", "wav_open", "(SF_FORMAT_WAV|SF_FORMAT_FLOAT)", 1, 0, 256, {}),
    ("wav.ulaw", "wav.c", "wav_open", "(SF_FORMAT_WAV|SF_FORMAT_ULAW)", 1, 1, 256, {}),
    ("wavbe.pcm16", "wav.c", "wav_open", "(SF_FORMAT_WAV|SF_FORMAT_PCM_16|SF_ENDIAN_BIG)", 1, 0, 256, {}),
    ("wavex.pcm16", "wav.c", "wav_open", "(SF_FORMAT_WAVEX|SF_FORMAT_PCM_16)", 1, 0, 256, {}),
    ("w64.pcm16", "w64.c", "w64_open", "(SF_FORMAT_W64|SF_FORMAT_PCM_16)", 1, 0, 256, {}),
    ("rf64.pcm16", "rf64.c", "rf64_open", "(SF_FORMAT_RF64|SF_FORMAT_PCM_16)", 1, 0, 256, {}),
    ("aiff.pcm16", "aiff.c", "aiff_open", "(SF_FORMAT_AIFF|SF_FORMAT_PCM_16)", 1, 0, 256, {"IS_AIFF": 1}),
    ("aiff.pcm16.probe_aiffrate", "aiff.c", "aiff_open", "(SF_FORMAT_AIFF|SF_FORMAT_PCM_16)", 1, 0, 256, {"IS_AIFF": 1, "PROBE_aiffrate": 1}),
    ("aiff.pcms8", "aiff.c", "aiff_open", "(SF_FORMAT_AIFF|SF_FORMAT_PCM_S8)", 1, 1, 256, {"IS_AIFF": 1}),
    ("aiff.float", "aiff.c", "aiff_open", "(SF_FORMAT_AIFF|SF_FORMAT_FLOAT)", 1, 0, 256, {"IS_AIFF": 1}),
    ("au.pcm16", "au.c", "au_open", "(SF_FORMAT_AU|SF_FORMAT_PCM_16)", 1, 0, 256, {}),
    ("au.ulaw", "au.c", "au_open", "(SF_FORMAT_AU|SF_FORMAT_ULAW)", 1, 0, 256, {}),
    ("aule.pcm32", "au.c", "au_open", "(SF_FORMAT_AU|SF_FORMAT_PCM_32|SF_ENDIAN_LITTLE)", 1, 0, 256, {}),
    ("caf.pcm16", "caf.c", "caf_open", "(SF_FORMAT_CAF|SF_FORMAT_PCM_16)", 1, 0, 4200, {}),
    ("voc.pcm16", "voc.c", "voc_open", "(SF_FORMAT_VOC|SF_FORMAT_PCM_16)", 0, 0, 256, {}),
    ("voc.pcmu8", "voc.c", "voc_open", "(SF_FORMAT_VOC|SF_FORMAT_PCM_U8)", 0, 0, 256, {"IS_VOC_U8": 1}),
    ("voc.pcmu8.probe_vocupd", "voc.c", "voc_open", "(SF_FORMAT_VOC|SF_FORMAT_PCM_U8)", 0, 0, 256, {}),
    ("svx.pcm16", "svx.c", "svx_open", "(SF_FORMAT_SVX|SF_FORMAT_PCM_16)", 1, 1, 256, {"SR_MAX": 65535}),
    ("svx.pcms8", "svx.c", "svx_open", "(SF_FORMAT_SVX|SF_FORMAT_PCM_S8)", 1, 1, 256, {"SR_MAX": 65535}),
    ("nist.pcm16", "nist.c", "nist_open", "(SF_FORMAT_NIST|SF_FORMAT_PCM_16)", 1, 0, 1100, {}),
    ("paf.pcm16", "paf.c", "paf_open", "(SF_FORMAT_PAF|SF_FORMAT_PCM_16)", 1, 0, 2100, {}),
    ("ircam.pcm16", "ircam.c", "ircam_open", "(SF_FORMAT_IRCAM|SF_FORMAT_PCM_16)", 1, 0, 1100, {"SR_MAX": 16777216}),
    ("mat4.pcm16", "mat4.c", "mat4_open", "(SF_FORMAT_MAT4|SF_FORMAT_PCM_16)", 1, 0, 256, {}),
    ("mat5.pcm16", "mat5.c", "mat5_open", "(SF_FORMAT_MAT5|SF_FORMAT_PCM_16)", 1, 0, 512, {}),
    ("pvf.pcm16", "pvf.c", "pvf_open", "(SF_FORMAT_PVF|SF_FORMAT_PCM_16)", 1, 0, 256, {}),
    ("htk.pcm16", "htk.c", "htk_open", "(SF_FORMAT_HTK|SF_FORMAT_PCM_16)", 0, 0, 256, {}),
    ("avr.pcm16", "avr.c", "avr_open", "(SF_FORMAT_AVR|SF_FORMAT_PCM_16)", 1, 0, 256, {}),
    ("mpc2k.pcm16", "mpc2k.c", "mpc2k_open", "(SF_FORMAT_MPC2K|SF_FORMAT_PCM_16)", 1, 0, 256, {"SR_MAX": 65535}),
    # endian options: SF_ENDIAN_CPU / LITTLE / BIG where the container takes them
    ("mat4cpu.pcm16", "mat4.c", "mat4_open", "(SF_FORMAT_MAT4|SF_FORMAT_PCM_16|SF_ENDIAN_CPU)", 1, 0, 256, {}),
    ("mat4be.pcm16", "mat4.c", "mat4_open", "(SF_FORMAT_MAT4|SF_FORMAT_PCM_16|SF_ENDIAN_BIG)", 1, 0, 256, {}),
    ("aucpu.pcm16", "au.c", "au_open", "(SF_FORMAT_AU|SF_FORMAT_PCM_16|SF_ENDIAN_CPU)", 1, 0, 256, {}),
    ("aifcle.pcm16", "aiff.c", "aiff_open", "(SF_FORMAT_AIFF|SF_FORMAT_PCM_16|SF_ENDIAN_LITTLE)", 1, 0, 256, {"IS_AIFF": 1}),
    ("wavcpu.pcm16", "wav.c", "wav_open", "(SF_FORMAT_WAV|SF_FORMAT_PCM_16|SF_ENDIAN_CPU)", 1, 0, 256, {}),
]
# channel counts: 1, 2 and the library maximum (SF_MAX_CHANNELS = 1024) where the container's field can hold it
MAXCH_TAGS = ("wav.pcm16", "aiff.pcm16", "au.pcm16", "w64.pcm16", "mat4.pcm16")

# configurations measured to finish on the unchanged tree; the rest stay in the thorough tier until tuned
MONO_ONLY = ("svx", "htk")
HEAVY = ("ircam", "wavex", "rf64")   # 400..520 s per query (measured): thorough tier only, reduced N/channel grid
# measured NOT to finish (no verdict after 1500 s / 24 GB: CAF 4 KiB pad, NIST and PVF text headers + sscanf, PAF, MAT5): kept in the
# grid for the record but in no registered tier - these containers' round trips are outside the claim (DESIGN B.2)
DROPPED = ("caf", "nist", "paf", "mat5", "pvf")


def rt_harnesses(update_now=False, only=None):
    out = []
    for tag, cfile, openfn, fmt, exact, pad, cap, extra in GRID:
        if only and not any(o in tag for o in only):
            continue
        for ch in (1, 2, 1024):
            if ch == 2 and tag.split(".")[0] in MONO_ONLY:
                continue
            if ch == 1024 and tag not in MAXCH_TAGS:
                continue
            for nfix in (0, 1, 2, 3, 1000):
                if ch == 2 and nfix in (2, 1000):
                    continue
                if ch == 1024 and nfix != 1:
                    continue
                if "probe" in tag and not (ch == 1 and nfix == 1):
                    continue
                if "probe_vocupd" in tag and not update_now:
                    continue
                if tag.split(".")[0] in HEAVY and not ((ch == 1 and nfix in (1, 1000)) or (ch == 2 and nfix == 1)):
                    continue
                # WAV-family 'fmt ' parsers keep their fields in a union: a symbolic rate makes the encoding field
                # non-constant for the symbolic executor -> rate on the grid there, symbolic everywhere else
                srs = [None]
                if cfile in ("wav.c", "w64.c", "rf64.c") and not any(x in tag for x in ("ulaw", "alaw")):
                    srs = [1, 44100, 2147483647] if (ch == 1 and nfix == 1) else [44100]
                # HTK refuses a write open with a rate below 1 (fix 02afbb6): with a symbolic rate the open outcome is symbolic and the
                # handle's function pointers stop being constants (R5) -> rate on the grid here too
                if cfile == "htk.c":
                    srs = [1, 8000, 10000000] if (ch == 1 and nfix == 1) else [8000]
                for sr in srs:
                    d = {"CONTAINER_FILE": '"%s"' % cfile, "OPEN_FN": openfn, "FMT": fmt, "CH": ch, "N_MIN": nfix, "N_MAX": nfix,
                         "N_FIXED": nfix, "PADFRAMES": pad, "MF_CAP": cap, "MF_MAXIO": cap, "MF_ABSTRACT": 1, "SNP_MAX": 40,
                         "PSF_MEMSET_MAX": 64}
                    if exact:
                        d["EXACT_RATE"] = 1
                    if update_now:
                        d["UPDATE_NOW"] = 1
                    d.update(extra)
                    if sr is not None:
                        d["SR_FIXED"] = sr
                    if cfile in ("wav.c", "w64.c", "rf64.c"):
                        d["STUB_APPEND_SNPRINTF"] = 1      # WAVEX channel-mask log text (env/log_stub.c)
                    name = "rt%s.%s.ch%d.n%d%s" % (".upd" if update_now else "", tag, ch, nfix, "" if sr is None else ".sr%d" % sr)
                    out.append(H(name, "C04/container_rt.c", link=[u for u in ALL_UNITS if u + ".c" != cfile],
                                 stubs=["psf_log_printf", "psf_memset"] + (["append_snprintf"] if cfile in ("wav.c", "w64.c", "rf64.c") else []), defines=d, unwind=12,
                                 unwindset=["psf_fread.0:%d" % (cap + 1), "psf_fwrite.0:%d" % (cap + 1), "psf_memset.0:65", "strlen.0:70",
                                            "strcmp.0:70", "snprintf.0:41", "snprintf.1:41", "psf_binheader_writef.0:%d" % (cap + 2),
                                            "psf_binheader_writef.1:40", "psf_binheader_readf.1:40", "psf_binheader_readf.0:20",
                                            "memcmp.0:24", "vsnprintf.0:300", "vsnprintf.1:300", "uint2tenbytefloat.0:34"],
                                 checks="mem", fsa=cap + 80,
                                 include_env=("log_stub", "memfile", "memset_model", "snprintf_model", "libm_model"),
                                 timeout=1500 if tag.split(".")[0] in HEAVY else 240,
                                 tiers=() if tag.split(".")[0] in DROPPED else ("thorough",) if (tag.split(".")[0] in HEAVY or not ((ch == 1 and nfix in (0, 1, 1000)) or (ch in (2, 1024) and nfix == 1))
                                                         or (sr not in (None, 44100, 8000) and tag != "wav.pcm16")) else ("quick", "thorough"),
                                 kf=["aiffrate", "vocupd"], probe_for=("aiffrate" if "probe_aiffrate" in tag else "vocupd" if "probe_vocupd" in tag else None),
                                 functions=[openfn, cfile + " header writer/reader/close", "psf_binheader_writef", "psf_binheader_readf", "codec init"],
                                 bounds="N = %d frames (grid), sample rate %s, stale SF_INFO.frames any 64-bit value" % (
                                     nfix, "symbolic 1..max" if sr is None else str(sr))))
    return out


HARNESSES = rt_harnesses()
# block codec staging layer (K-block contract): IMA ADPCM, WAV and AIFF layouts
HARNESSES += _load("blk_common").ima_harnesses(("SEL_WRITE",))
# CAF/ALAC packet table ('pakt' chunk) written at close vs what a reader rebuilds from it
HARNESSES += _load("blk_common").alac_stage_harnesses(("SEL_PAKT",))

META = {"assumptions": ["E-memfile with abstract data region", "handle state prepared as psf_open_file does (harness/include/preopen.h)",
                        "frames accepted are installed the way the public write wrappers leave them (C05)"],
        "outside": ["block codecs' frame rounding (B > 1)", "SD2 (resource fork), SDS, XI, WVE, TXW: not in the grid yet"]}
