/* C03 (sane info): the gate psf_open_file applies to whatever a container
 * parser produced - validate_sfinfo + validate_psf (src/sndfile.c) - on a
 * fully SYMBOLIC SF_INFO / geometry: everything that passes has
 * 1 <= channels <= 1024, samplerate >= 1, frames >= 0, sections >= 1, and
 * non-negative, consistent data geometry.
 */
#include "verif.h"
#include <string.h>
#include "sndfile.c"

static SF_PRIVATE g_psf ;

int
main (void)
{	SF_PRIVATE *psf = &g_psf ;
	sf_count_t nd_frames = nondet_i64 () ;
	int nd_sr = nondet_int () ;
	int nd_ch = nondet_int () ;
	int nd_fmt = nondet_int () ;
	int nd_sec = nondet_int () ;
	int nd_seek = nondet_int () ;
	sf_count_t nd_doff = nondet_i64 () ;
	sf_count_t nd_dlen = nondet_i64 () ;
	sf_count_t nd_bw = nondet_i64 () ;
	int nd_bytew = nondet_int () ;

	psf->sf.frames = nd_frames ; psf->sf.samplerate = nd_sr ; psf->sf.channels = nd_ch ; psf->sf.format = nd_fmt ;
	psf->sf.sections = nd_sec ; psf->sf.seekable = nd_seek ;
	psf->dataoffset = nd_doff ; psf->datalength = nd_dlen ; psf->blockwidth = nd_bw ; psf->bytewidth = nd_bytew ;
	if (validate_sfinfo (&psf->sf) && validate_psf (psf))
	{	VASSERT (psf->sf.channels >= 1 && psf->sf.channels <= SF_MAX_CHANNELS, "accepted handle: 1 <= channels <= 1024") ;
		VASSERT (psf->sf.samplerate >= 1, "accepted handle: samplerate >= 1") ;
		VASSERT (psf->sf.frames >= 0, "accepted handle: frames >= 0") ;
		VASSERT (psf->sf.sections >= 1, "accepted handle: sections >= 1") ;
		VASSERT ((psf->sf.format & SF_FORMAT_TYPEMASK) != 0 && (psf->sf.format & SF_FORMAT_SUBMASK) != 0, "accepted handle: the format word names a container and an encoding") ;
		VASSERT (psf->datalength >= 0 && psf->dataoffset >= 0, "accepted handle: data geometry is non-negative") ;
		} ;
	WITNESS_END () ;
	return 0 ;
}
