#!/usr/bin/env python3
"""Prints the markdown table 'which checks catch which seeded changes' from seeded/*/meta.json."""
import json, os, glob
rows = []
for d in sorted(glob.glob('/verif/seeded/*')):
    m = json.load(open(os.path.join(d, 'meta.json')))
    name = os.path.basename(d)
    patch = open(os.path.join(d, 'patch.diff')).read()
    files = sorted({l.split(' b/')[-1].strip() for l in patch.splitlines() if l.startswith('diff --git')})
    det = m.get('detected_by')
    ran = m.get('checks_run_against_it', [])
    rows.append((name, ", ".join(files), "not run yet" if det is None else (", ".join(det) if det else "missed"), "; ".join("%s%s" % (r['check'], (":" + r['only']) if r.get('only') else "") for r in ran)))
print("| seeded change | file(s) | caught by (quick tier unless noted) | checks run against it |")
print("|---|---|---|---|")
for r in rows:
    print("| %s | %s | %s | %s |" % r)
