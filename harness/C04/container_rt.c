/* C04 H1-H2 (+ C10 H1/H3, C11 H1): container header round trip, one
 * container per query: real X_open (WRITE: writes the header) -> "N frames
 * accepted" -> [SFC_UPDATE_HEADER_NOW path | container close] -> real X_open
 * (READ) on the bytes produced, over E-memfile whose audio-data region is
 * abstract (MF_ABSTRACT). The handle state psf_open_file prepares is
 * reproduced by preopen.h; its post-open gate is applied with the real
 * validate_sfinfo / validate_psf.
 *
 * Grid: CONTAINER_FILE/OPEN_FN/FMT (container | encoding | endian), CH.
 * Symbolic: sample rate, N (frames the write calls accepted), the caller's
 * stale SF_INFO.frames.
 */
#include "verif.h"
#include <stdlib.h>
#include <string.h>
#include "sndfile.c"
#include CONTAINER_FILE
#include "memfile.h"
#include "preopen.h"

#ifndef BLOCKLEN
#define BLOCKLEN 1		/* frames per codec block (1 = sample granular) */
#endif
/* Header caches are static arrays (field-sensitive: the bytes the parser reads back stay constants, R8)
** large enough for the container's whole header, so psf_bump_header_allocation (realloc) is not
** exercised here; it has its own harness (C03 L0). */
#define HDRLEN	(MF_CAP + 64)

static SF_PRIVATE g_w, g_r ;
#ifdef WITH_META
static SF_CUES g_cues ;
static SF_INSTRUMENT g_inst ;
static int nd_cue [12], nd_ins [8] ;
#ifndef STR_MAX
#define STR_MAX 4
#endif
static signed char nd_txt [2 * (STR_MAX + 1)] ;
static char g_txt [2][STR_MAX + 1] ;
#endif
static unsigned char g_hw [HDRLEN], g_hr [HDRLEN] ;

int
main (void)
{	SF_INFO wi, ri ;
	SF_PRIVATE *w = &g_w, *r = &g_r ;
	int nd_sr = nondet_int () ;
	sf_count_t nd_n = nondet_i64 () ;
	sf_count_t nd_stale = nondet_i64 () ;
	int rc ;
#ifdef SR_FIXED
	nd_sr = SR_FIXED ;	/* sample rate on the grid (WAV-family 'fmt ' parser keeps its fields in a union: one symbolic
				** member makes the encoding field non-constant for the symbolic executor) */
#endif
	VASSUME (nd_sr >= 1) ;
#ifdef SR_MAX
	VASSUME (nd_sr <= SR_MAX) ;
#endif
#if defined (KF_aiffrate) && defined (IS_AIFF)
	VASSUME (nd_sr < (1 << 30)) ;		/* known finding excluded (known_findings.txt) */
#endif
#ifdef PROBE_aiffrate
	VASSUME (nd_sr >= (1 << 30)) ;
#endif
#ifdef N_FIXED
	nd_n = N_FIXED ;	/* frame count on the grid: the parsers then walk a structurally concrete file (R2/R8) */
#else
	VASSUME (nd_n >= N_MIN && nd_n <= N_MAX) ;
#endif

	/* ---- write side */
	memset (&wi, 0, sizeof (wi)) ;
	wi.samplerate = nd_sr ;
	wi.channels = CH ;
	wi.format = FMT ;
	wi.frames = nd_stale ;		/* stale/wrong caller value must not matter */
	VASSERT (sf_format_check (&wi) == 1, "grid configuration is one sf_format_check accepts") ;
	mf [0].len = 0 ; mf [0].pos = 0 ;
	verif_pre_open (w, &wi, SFM_WRITE, 0, g_hw, HDRLEN) ;
	rc = OPEN_FN (w) ;
	VASSERT (rc == 0, "accepted by sf_format_check => the container opens for writing") ;
	VASSERT (w->write_short != NULL && w->write_int != NULL && w->write_float != NULL && w->write_double != NULL, "accepted format installs all four write entry points") ;
	VASSERT (w->dataoffset > 0 && w->dataoffset <= MF_CAP && mf [0].len == w->dataoffset, "header written, audio data starts right after it") ;
	VASSERT (w->blockwidth == (sf_count_t) w->bytewidth * CH, "blockwidth = bytewidth * channels") ;
	VASSERT (validate_sfinfo (&w->sf) && validate_psf (w), "write handle passes psf_open_file's gate") ;

#ifdef WITH_META
	/* C12: metadata set right after open, before any audio (cue points and instrument/loop data with symbolic fields) */
	{	int mk ;
		ND_FILL (nd_cue, 12, int) ;
		memset (&g_cues, 0, sizeof (g_cues)) ;
		g_cues.cue_count = 2 ;
		for (mk = 0 ; mk < 2 ; mk++)
		{	g_cues.cue_points [mk].indx = nd_cue [6 * mk] ;
			g_cues.cue_points [mk].position = (uint32_t) nd_cue [6 * mk + 1] ;
			g_cues.cue_points [mk].fcc_chunk = nd_cue [6 * mk + 2] ;
			g_cues.cue_points [mk].chunk_start = nd_cue [6 * mk + 3] ;
			g_cues.cue_points [mk].block_start = nd_cue [6 * mk + 4] ;
			g_cues.cue_points [mk].sample_offset = (uint32_t) nd_cue [6 * mk + 5] ;
			} ;
#if WITH_META & 1
		rc = sf_command ((SNDFILE *) w, SFC_SET_CUE, &g_cues, sizeof (g_cues)) ;
		VASSERT (rc == SF_TRUE, "cue points accepted before any audio is written") ;
#endif
		ND_FILL (nd_ins, 8, int) ;
		memset (&g_inst, 0, sizeof (g_inst)) ;
		g_inst.gain = nd_ins [0] ;
		g_inst.basenote = (char) (nd_ins [1] & 0x7F) ;
		g_inst.detune = 0 ;
		g_inst.velocity_lo = 0 ; g_inst.velocity_hi = 127 ; g_inst.key_lo = 0 ; g_inst.key_hi = 127 ;
		g_inst.loop_count = 1 ;
		g_inst.loops [0].mode = SF_LOOP_FORWARD ;
		g_inst.loops [0].start = (uint32_t) nd_ins [2] ;
		g_inst.loops [0].end = (uint32_t) nd_ins [3] ;
		g_inst.loops [0].count = (uint32_t) nd_ins [4] ;
		VASSUME (g_inst.loops [0].end > 0) ;
#if WITH_META & 2
		rc = sf_command ((SNDFILE *) w, SFC_SET_INSTRUMENT, &g_inst, sizeof (g_inst)) ;
		VASSERT (rc == SF_TRUE, "instrument accepted before any audio is written") ;
#endif
#if WITH_META & 4
		/* text strings: two kinds with symbolic contents (length 0..STR_MAX, printable bytes) */
		ND_FILL (nd_txt, 2 * (STR_MAX + 1), schar) ;
		for (mk = 0 ; mk < 2 ; mk++)
		{	int c, ended = 0 ;
			for (c = 0 ; c < STR_MAX ; c++)
			{	signed char ch = nd_txt [mk * (STR_MAX + 1) + c] ;
				if (ch == 0) ended = 1 ;
				VASSUME (ended ? ch == 0 : (ch >= 0x20 && ch < 0x7F)) ;
				g_txt [mk][c] = ch ;
				} ;
			g_txt [mk][STR_MAX] = 0 ;
			VASSUME (g_txt [mk][0] != 0) ;		/* (an empty string is "not set") */
			} ;
		rc = sf_set_string ((SNDFILE *) w, SF_STR_TITLE, g_txt [0]) ;
		VASSERT (rc == 0, "title accepted before any audio is written") ;
		rc = sf_set_string ((SNDFILE *) w, SF_STR_ARTIST, g_txt [1]) ;
		VASSERT (rc == 0, "artist accepted before any audio is written") ;
#endif
		/* what the first write call does: (re)write the header, now with the metadata */
		rc = w->write_header (w, SF_FALSE) ;
		VASSERT (rc == 0 && w->dataoffset <= MF_CAP, "header with metadata written") ;
	}
#endif
	/* ---- "the write calls accepted N frames": the state the wrappers + a sample-granular codec leave behind */
	w->read_current = 0 ;
	w->have_written = nd_n > 0 ? SF_TRUE : SF_FALSE ;
	w->write_current = nd_n ;
	w->sf.frames = nd_n ;
	w->last_op = SFM_WRITE ;
	mf [0].len = w->dataoffset + nd_n * w->blockwidth ;
	mf [0].len_min = w->dataoffset ;		/* concrete: the header is there whatever N is */
	mf [0].pos = mf [0].len ;
#if defined (UPDATE_NOW) && defined (WPTR_BACK)
	/* the application seeked back and overwrote frames in the middle: the write pointer is at frame 0, the
	** file still holds N frames - the header update must describe all N of them */
	w->write_current = 0 ;
	mf [0].pos = w->dataoffset ;
#endif
#ifdef UPDATE_NOW
	/* C11: crash point = the instant the header update returns */
	VASSERT (w->write_header != NULL, "container has a rewritable header") ;
	rc = w->write_header (w, SF_TRUE) ;
#ifdef WPTR_BACK
	VASSERT (mf [0].pos == w->dataoffset, "header update restores the file position") ;
#else
	VASSERT (mf [0].pos == w->dataoffset + nd_n * w->blockwidth, "header update restores the file position") ;
#endif
	VASSERT (mf [0].len == w->dataoffset + nd_n * w->blockwidth, "header update does not change the file length") ;
#ifdef WRITE_ONLY
	/* writer-side frame condition only (containers whose parser does not finish within budget): position restored, length kept */
	VASSERT (w->write_current == 0 || w->write_current == nd_n, "header update leaves the write pointer alone") ;
	WITNESS_END () ;
	return 0 ;
#endif
#else
#ifndef DBG_NO_CLOSE
	if (w->codec_close) rc = w->codec_close (w) ;
	if (w->container_close) rc = w->container_close (w) ;
#endif
#ifdef DBG_NO_READ
	WITNESS_END () ;
	return 0 ;
#endif
#endif

	/* ---- read side: independent parse of the bytes produced */
	memset (&ri, 0, sizeof (ri)) ;
	mf [0].pos = 0 ;
	mf [0].len_min = w->dataoffset ;
	verif_pre_open (r, &ri, SFM_READ, 0, g_hr, HDRLEN) ;
	r->sf.format = FMT & SF_FORMAT_TYPEMASK ;	/* what guess_file_type yields for this container (checked in C03) */
	rc = OPEN_FN (r) ;
	VASSERT (rc == 0, "the produced file opens for reading") ;
	VASSERT (validate_sfinfo (&r->sf) && validate_psf (r), "read handle passes psf_open_file's gate") ;
	VASSERT (r->sf.channels == CH, "channel count survives") ;
	VASSERT ((r->sf.format & SF_FORMAT_TYPEMASK) == (FMT & SF_FORMAT_TYPEMASK), "container survives") ;
	VASSERT ((r->sf.format & SF_FORMAT_SUBMASK) == (FMT & SF_FORMAT_SUBMASK), "encoding survives") ;
#ifdef EXACT_RATE
	VASSERT (r->sf.samplerate == nd_sr, "sample rate survives exactly") ;
#endif
#if defined (KF_vocupd) && defined (UPDATE_NOW) && defined (IS_VOC_U8)
	/* known finding excluded (known_findings.txt): VOC 8-bit header update counts the not-yet-written terminator byte */
	(void) 0 ;	/* no frame-count claim for this configuration */
#else
	VASSERT (r->sf.frames >= nd_n && r->sf.frames < nd_n + BLOCKLEN + PADFRAMES, "N <= frames < N + block length (+ documented pad frame)") ;
#endif
	VASSERT (r->dataoffset == w->dataoffset, "reader finds the audio data where the writer put it") ;
	VASSERT (r->read_short != NULL && r->read_int != NULL && r->read_float != NULL && r->read_double != NULL, "reader installs all four read entry points") ;
#ifdef WITH_META
	{	int mk ;
#if WITH_META & 1
		VASSERT (r->cues != NULL && r->cues->cue_count == 2, "cue points survive: count") ;
		for (mk = 0 ; mk < 2 ; mk++)
		{	VASSERT (r->cues->cue_points [mk].indx == g_cues.cue_points [mk].indx, "cue survives: indx") ;
			VASSERT (r->cues->cue_points [mk].position == g_cues.cue_points [mk].position, "cue survives: position") ;
			VASSERT (r->cues->cue_points [mk].fcc_chunk == g_cues.cue_points [mk].fcc_chunk, "cue survives: fcc_chunk") ;
			VASSERT (r->cues->cue_points [mk].chunk_start == g_cues.cue_points [mk].chunk_start, "cue survives: chunk_start") ;
			VASSERT (r->cues->cue_points [mk].block_start == g_cues.cue_points [mk].block_start, "cue survives: block_start") ;
			VASSERT (r->cues->cue_points [mk].sample_offset == g_cues.cue_points [mk].sample_offset, "cue survives: sample_offset") ;
			} ;
#endif
#if WITH_META & 2
		VASSERT (r->instrument != NULL, "instrument survives") ;
		VASSERT (r->instrument->basenote == g_inst.basenote, "instrument survives: basenote") ;	/* (the WAV smpl chunk has no gain field) */
		VASSERT (r->instrument->loop_count == 1, "instrument survives: loop count") ;
		VASSERT (r->instrument->loops [0].start == g_inst.loops [0].start && r->instrument->loops [0].count == g_inst.loops [0].count, "loop survives: start, count") ;
#endif
#if WITH_META & 4
		{	const char *t = sf_get_string ((SNDFILE *) r, SF_STR_TITLE), *a = sf_get_string ((SNDFILE *) r, SF_STR_ARTIST) ;
			VASSERT (t != NULL && a != NULL, "both strings are present after re-open") ;
			for (mk = 0 ; mk <= STR_MAX ; mk++)
			{	VASSERT (t [mk] == g_txt [0][mk], "title survives unchanged") ;
				if (g_txt [0][mk] == 0) break ;
				} ;
			for (mk = 0 ; mk <= STR_MAX ; mk++)
			{	VASSERT (a [mk] == g_txt [1][mk], "artist survives unchanged") ;
				if (g_txt [1][mk] == 0) break ;
				} ;
		}
#endif
		(void) mk ;
	}
#endif
	WITNESS_END () ;
	return 0 ;
}
