/* C14 H3: the REAL psf_open_file (src/sndfile.c) + REAL src/file_io.c + REAL au.c/pcm.c
 * over the E-posix model, two access routes to the SAME bytes:
 *   A  descriptor route, descriptor positioned at offset K of a larger file
 *      (leading junk K bytes, the sound file, TAIL trailing junk bytes),
 *      prepared as sf_open_fd does after psf_allocate (its body is replicated
 *      on a static handle: a calloc'ed handle is an untyped byte array for
 *      the symbolic executor, R1; the real sf_open_fd prefix is open_entry.c);
 *   B  virtual-I/O route over the extracted sub-file, prepared as
 *      sf_open_virtual does.
 * Obligation (C14): same open outcome, same SF_INFO, same frames from
 * sf_readf_short, same sf_seek results, same frames afterwards.
 * The sound file is a well-formed AU/PCM16 (or, FILE_WAV, WAV/PCM16) file whose header states its exact
 * data size (an embedded file cannot be delimited otherwise): rate and
 * channel count (1..2) symbolic, data bytes symbolic, D = 0..DMAX data bytes.
 */
#include "verif.h"
#include <stdlib.h>
#include <string.h>
#include "posix_model.h"

static void verif_free (void *p) ;
#define free verif_free
#include "sndfile.c"
#undef free

static SF_PRIVATE g_a, g_b ;
static unsigned char g_hdr_a [300], g_hdr_b [300] ;
static int g_closed_a, g_closed_b ;

static void
verif_free (void *p)
{	if (p == (void *) &g_a) { g_closed_a ++ ; return ; } ;
	if (p == (void *) &g_b) { g_closed_b ++ ; return ; } ;
	if (p == (void *) g_hdr_a || p == (void *) g_hdr_b) return ;
	(free) (p) ;
}

#ifndef K
#define K 20
#endif
#ifndef DMAX
#define DMAX 8
#endif
#ifdef FILE_WAV
#define HLEN 44
#define SAMPLE0(d)	((unsigned short) (((d) [1] << 8) | (d) [0]))
#else
#define HLEN 24
#define SAMPLE0(d)	((unsigned short) (((d) [0] << 8) | (d) [1]))
#endif

/* virtual I/O callbacks over the sub-file [v_k, v_k + v_sublen) of the same disk bytes */
static sf_count_t v_k, v_sublen, v_pos ;
static sf_count_t v_len (void *u) { (void) u ; return v_sublen ; }
static sf_count_t v_seek (sf_count_t off, int whence, void *u)
{	sf_count_t np ;
	(void) u ;
	if (whence == SEEK_SET) np = off ; else if (whence == SEEK_CUR) np = v_pos + off ; else np = v_sublen + off ;
	if (np < 0) return -1 ;
	v_pos = np ;
	return np ;
}
static sf_count_t v_read (void *ptr, sf_count_t count, void *u)
{	sf_count_t avail = v_pos < v_sublen ? v_sublen - v_pos : 0, n = count < avail ? count : avail, i ;
	(void) u ;
	if (v_pos >= 0 && v_pos + count <= HLEN)
		n = count ;		/* inside the header, which is known to exist (R3/R8: no branch on the symbolic length) */
	for (i = 0 ; i < count && i < PX_MAXIO ; i++)
	{	if (i >= n) break ;
		((unsigned char *) ptr) [i] = px.data [v_k + v_pos + i] ;
		} ;
	v_pos += n ;
	return n ;
}
static sf_count_t v_write (const void *ptr, sf_count_t count, void *u) { (void) ptr ; (void) count ; (void) u ; return 0 ; }
static sf_count_t v_tell (void *u) { (void) u ; return v_pos ; }

static void
handle_reset (SF_PRIVATE *psf, unsigned char *hdr, int hdrlen)
{	static const SF_PRIVATE zero_psf ;
	*psf = zero_psf ;
	psf->header.ptr = hdr ;		/* psf_allocate () */
	psf->header.len = hdrlen ;
}

int
main (void)
{	SF_PRIVATE *a = &g_a, *b = &g_b ;
	SNDFILE *ha, *hb ;
	SF_INFO sia, sib ;
	SF_VIRTUAL_IO vio ;
	unsigned char nd_junk [K + 4], nd_data [DMAX] ;
	unsigned char nd_rate0 = nondet_uchar (), nd_rate1 = nondet_uchar (), nd_rate2 = nondet_uchar (), nd_rate3 = nondet_uchar () ;
	int nd_d = nondet_int (), nd_tail = nondet_int (), nd_ch = nondet_int () ;
	int erra, errb, i ;
	short fa [8], fb [8] ;
	sf_count_t ra, rb ;
	static const unsigned char fixed [8] = { '.', 's', 'n', 'd', 0, 0, 0, 24 } ;

	ND_FILL (nd_junk, K + 4, uchar) ;
	ND_FILL (nd_data, DMAX, uchar) ;
	VASSUME (nd_d >= 0 && nd_d <= DMAX && nd_tail >= 0 && nd_tail <= 4 && nd_ch >= 1 && nd_ch <= 2) ;
	/* grid parameters (concrete for the symbolic executor: every branch of the open gate on them folds, so the
	** handle's function pointers stay constants, R1/R5) */
#ifdef D_FIXED
	nd_d = D_FIXED ;
#endif
#ifdef TAIL_FIXED
	nd_tail = TAIL_FIXED ;
#endif
#ifdef CH_FIXED
	nd_ch = CH_FIXED ;
#endif
#ifdef SR_FIXED
	nd_rate0 = (unsigned char) ((SR_FIXED >> 24) & 0xff) ; nd_rate1 = (unsigned char) ((SR_FIXED >> 16) & 0xff) ;
	nd_rate2 = (unsigned char) ((SR_FIXED >> 8) & 0xff) ; nd_rate3 = (unsigned char) (SR_FIXED & 0xff) ;
#endif
	/* the disk: K junk bytes, header (HLEN bytes, exact data size), D data bytes, TAIL junk bytes */
	for (i = 0 ; i < K ; i++) px.data [i] = nd_junk [i] ;
#ifdef FILE_WAV
	{	static const unsigned char wfixed [20] = { 'R', 'I', 'F', 'F', 0, 0, 0, 0, 'W', 'A', 'V', 'E', 'f', 'm', 't', ' ', 16, 0, 0, 0 } ;
		unsigned bw = 2 * (unsigned) nd_ch ;
		unsigned rate = ((unsigned) nd_rate0 << 24) | ((unsigned) nd_rate1 << 16) | ((unsigned) nd_rate2 << 8) | nd_rate3 ;
		unsigned brate = rate * bw ;
		for (i = 0 ; i < 20 ; i++) px.data [K + i] = wfixed [i] ;
		px.data [K + 4] = (unsigned char) (36 + nd_d) ;			/* RIFF size = file length - 8 */
		px.data [K + 20] = 1 ; px.data [K + 21] = 0 ;			/* WAVE_FORMAT_PCM */
		px.data [K + 22] = (unsigned char) nd_ch ; px.data [K + 23] = 0 ;
		px.data [K + 24] = nd_rate3 ; px.data [K + 25] = nd_rate2 ; px.data [K + 26] = nd_rate1 ; px.data [K + 27] = nd_rate0 ;
		px.data [K + 28] = (unsigned char) brate ; px.data [K + 29] = (unsigned char) (brate >> 8) ;
		px.data [K + 30] = (unsigned char) (brate >> 16) ; px.data [K + 31] = (unsigned char) (brate >> 24) ;
		px.data [K + 32] = (unsigned char) bw ; px.data [K + 33] = 0 ;
		px.data [K + 34] = 16 ; px.data [K + 35] = 0 ;
		px.data [K + 36] = 'd' ; px.data [K + 37] = 'a' ; px.data [K + 38] = 't' ; px.data [K + 39] = 'a' ;
		px.data [K + 40] = (unsigned char) nd_d ; px.data [K + 41] = 0 ; px.data [K + 42] = 0 ; px.data [K + 43] = 0 ;
	}
#else
	for (i = 0 ; i < 8 ; i++) px.data [K + i] = fixed [i] ;
	px.data [K + 8] = 0 ; px.data [K + 9] = 0 ; px.data [K + 10] = 0 ; px.data [K + 11] = (unsigned char) nd_d ;
	px.data [K + 12] = 0 ; px.data [K + 13] = 0 ; px.data [K + 14] = 0 ; px.data [K + 15] = 3 ;	/* AU_ENCODING_PCM_16 */
	px.data [K + 16] = nd_rate0 ; px.data [K + 17] = nd_rate1 ; px.data [K + 18] = nd_rate2 ; px.data [K + 19] = nd_rate3 ;
	px.data [K + 20] = 0 ; px.data [K + 21] = 0 ; px.data [K + 22] = 0 ; px.data [K + 23] = (unsigned char) nd_ch ;
#endif
#ifdef DATA0_FIXED
	/* wav_read_header refuses data that starts with 'wvpk' / 'OggS': with a symbolic first byte the open outcome is
	** symbolic and the handle's function pointers stop being constants (R5) - first four data bytes on the grid */
	nd_data [0] = DATA0_FIXED ; nd_data [1] = 0x34 ; nd_data [2] = DATA0_FIXED ^ 0xff ; nd_data [3] = 0x80 ;
#endif
	for (i = 0 ; i < DMAX ; i++) px.data [K + HLEN + i] = nd_data [i] ;
	for (i = 0 ; i < 4 ; i++) px.data [K + HLEN + DMAX + i] = nd_junk [K + i] ;
	/* (with D < DMAX the bytes after the data are the tail junk: symbolic either way) */
	px.len = K + HLEN + nd_d + nd_tail ;
	px.len_min = K + HLEN ;
	px.fd [3].open = 1 ;
	px.fd [3].pos = K ;			/* the caller positioned the descriptor at the embedded file */

	/* route A: sf_open_fd (3, SFM_READ, &sia, 0) after psf_allocate */
	handle_reset (a, g_hdr_a, sizeof (g_hdr_a)) ;
	memset (&sia, 0, sizeof (sia)) ;
	psf_init_files (a) ;
	a->file.path [0] = 0 ; a->file.dir [0] = 0 ; a->file.name [0] = 0 ;	/* psf_copy_filename (a, "") - names only feed the log */
	a->file.mode = SFM_READ ;
	a->file.do_not_close_descriptor = 1 ;
	psf_set_file (a, 3) ;
	a->is_pipe = psf_is_pipe (a) ;
	a->fileoffset = psf_ftell (a) ;
	ha = psf_open_file (a, &sia) ;
	erra = sf_errno ;

	/* route B: sf_open_virtual (&vio, SFM_READ, &sib, NULL) after psf_allocate */
	v_k = K ; v_sublen = HLEN + nd_d ; v_pos = 0 ;
	vio.get_filelen = v_len ; vio.seek = v_seek ; vio.read = v_read ; vio.write = v_write ; vio.tell = v_tell ;
	handle_reset (b, g_hdr_b, sizeof (g_hdr_b)) ;
	memset (&sib, 0, sizeof (sib)) ;
	psf_init_files (b) ;
	b->virtual_io = SF_TRUE ;
	b->vio = vio ;
	b->vio_user_data = NULL ;
	b->file.mode = SFM_READ ;
	sf_errno = 0 ;
	hb = psf_open_file (b, &sib) ;
	errb = sf_errno ;

	VASSERT ((ha == NULL) == (hb == NULL), "embedded-by-descriptor and virtual I/O over the same bytes: same open outcome") ;
	if (ha == NULL && hb == NULL)
		VASSERT (erra == errb, "both routes fail with the same error") ;
	else if (ha != NULL && hb != NULL)
	{	VASSERT (sia.frames == sib.frames && sia.samplerate == sib.samplerate && sia.channels == sib.channels
				&& sia.format == sib.format && sia.sections == sib.sections && sia.seekable == sib.seekable, "same SF_INFO on both routes") ;
		VASSERT (sia.frames == nd_d / (2 * nd_ch), "frames = data bytes / frame size") ;
		for (i = 0 ; i < 8 ; i++) fa [i] = fb [i] = 0 ;
		ra = sf_readf_short (ha, fa, 2) ;
		rb = sf_readf_short (hb, fb, 2) ;
		VASSERT (ra == rb, "same frame count read on both routes") ;
		for (i = 0 ; i < 4 ; i++) if (i < ra * nd_ch) VASSERT (fa [i] == fb [i], "same samples on both routes (within the returned count)") ;
		if (ra >= 1)
			VASSERT ((unsigned short) fa [0] == SAMPLE0 (nd_data), "first sample is the first two data bytes in the file's byte order") ;
		ra = sf_seek (ha, 1, SEEK_SET) ;
		rb = sf_seek (hb, 1, SEEK_SET) ;
		VASSERT (ra == rb, "same seek result on both routes") ;
		for (i = 0 ; i < 8 ; i++) fa [i] = fb [i] = 0 ;
		ra = sf_readf_short (ha, fa, 1) ;
		rb = sf_readf_short (hb, fb, 1) ;
		VASSERT (ra == rb && (ra < 1 || (fa [0] == fb [0] && (nd_ch < 2 || fa [1] == fb [1]))), "same frames after the seek on both routes") ;
		VASSERT (sf_error (ha) == sf_error (hb), "same error state on both routes") ;
		} ;
	WITNESS_END () ;
	return 0 ;
}
