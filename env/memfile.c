/* E-memfile: replacement for the file_io.c primitives over fixed-capacity byte
 * arrays (DESIGN 3.2). One MEMFILE per descriptor number (psf->file.filedes
 * in 0..MF_NFILES-1). Semantics follow src/file_io.c's POSIX branch for a
 * regular, seekable file with fileoffset == 0:
 *   psf_fread  : transfers min(bytes*items, len-pos) bytes, returns that / bytes
 *   psf_fwrite : extends the file; beyond MF_CAP the write is short (ENOSPC-like)
 *   psf_fseek  : SEEK_SET/CUR/END, returns the new position (may exceed len)
 * With MF_FAULTY defined every call may additionally (nondeterministically)
 * transfer fewer bytes, fail a seek or give an inconsistent tell/length
 * answer: that is the fault schedule of C15 (one choice per call = all
 * schedules). The real file_io.c is checked against a POSIX model in C14.
 *
 * Transfer loops are bounded by MF_MAXIO (largest request a harness makes);
 * harnesses give `--unwindset psf_fread.0:<MF_MAXIO+1>` etc.
 */
#include "sfconfig.h"
#include <stdio.h>
#include <string.h>
#include "sndfile.h"
#include "common.h"
#include "verif.h"
#include "memfile.h"

MEMFILE mf [MF_NFILES] ;

#ifdef MF_FAULTY
static sf_count_t
mf_fault_count (sf_count_t n)
{	/* any value in [0, n] */
	sf_count_t nd_short = nondet_i64 () ;
	if (nd_short < 0 || nd_short > n)
		return n ;
	return nd_short ;
}
#endif

static MEMFILE *
mf_of (SF_PRIVATE *psf)
{	int fd = psf->file.filedes ;
	if (fd < 0 || fd >= MF_NFILES)
		fd = 0 ;
	return &mf [fd] ;
}

sf_count_t
psf_fread (void *ptr, sf_count_t bytes, sf_count_t items, SF_PRIVATE *psf)
{	MEMFILE *f = mf_of (psf) ;
	sf_count_t total, avail, n, i ;
	unsigned char *dst = (unsigned char *) ptr ;

	f->n_read ++ ;
	total = items * bytes ;
	if (total <= 0 || bytes <= 0)
		return 0 ;
	if (f->pos >= 0 && f->pos + total <= f->len_min)
		n = total ;		/* entirely inside the part of the file known to exist */
	else
	{	avail = f->len - f->pos ;
		if (avail < 0)
			avail = 0 ;
		n = total < avail ? total : avail ;
		} ;
#ifdef MF_FAULTY
	n = mf_fault_count (n) ;
#endif
	/* bounded by the request (concrete for header I/O) and by MF_MAXIO (symbolic requests) */
	for (i = 0 ; i < total && i < MF_MAXIO ; i++)
	{	if (i >= n)
			break ;
#ifdef MF_ABSTRACT
		if (f->pos + i >= MF_CAP)
		{	unsigned char nd_abs = nondet_uchar () ;	/* abstract data region: content unknown */
			dst [i] = nd_abs ;
			}
		else
#endif
		dst [i] = f->data [f->pos + i] ;
		} ;
	VASSERT (n <= MF_MAXIO, "memfile: read request within MF_MAXIO (harness bound)") ;
	f->pos += n ;
	if (psf->is_pipe)
		psf->pipeoffset += n ;
	return n / bytes ;
}

sf_count_t
psf_fwrite (const void *ptr, sf_count_t bytes, sf_count_t items, SF_PRIVATE *psf)
{	MEMFILE *f = mf_of (psf) ;
	sf_count_t total, room, n, i ;
	const unsigned char *src = (const unsigned char *) ptr ;

	f->n_write ++ ;
	total = items * bytes ;
	if (total <= 0 || bytes <= 0)
		return 0 ;
#ifdef MF_ABSTRACT
	room = total ;		/* positions >= MF_CAP belong to the abstract data region: accepted, not stored */
#else
	room = MF_CAP - f->pos ;
#endif
	if (room < 0)
		room = 0 ;
	n = total < room ? total : room ;
#ifdef MF_FAULTY
	n = mf_fault_count (n) ;
#endif
	/* bounded by the request (concrete for header I/O) and by MF_MAXIO (symbolic requests) */
	for (i = 0 ; i < total && i < MF_MAXIO ; i++)
	{	if (i >= n)
			break ;
#ifdef MF_ABSTRACT
		if (f->pos + i < MF_CAP)
#endif
		f->data [f->pos + i] = src [i] ;
		} ;
	VASSERT (n <= MF_MAXIO, "memfile: write request within MF_MAXIO (harness bound)") ;
	f->pos += n ;
	if (f->pos > f->len)
		f->len = f->pos ;
	if (f->pos > f->len_min)
		f->len_min = f->pos ;
	if (psf->is_pipe)
		psf->pipeoffset += n ;
	return n / bytes ;
}

sf_count_t
psf_fseek (SF_PRIVATE *psf, sf_count_t offset, int whence)
{	MEMFILE *f = mf_of (psf) ;
	sf_count_t np ;

	f->n_seek ++ ;
	if (psf->is_pipe)
		return offset ;
	switch (whence)
	{	case SEEK_SET : np = offset ; break ;
		case SEEK_CUR : np = f->pos + offset ; break ;
		case SEEK_END : np = f->len + offset ; break ;
		default : return 0 ;
		} ;
#ifdef MF_FAULTY
	{	int nd_seekfail = nondet_int () ;
		if (nd_seekfail == 1)
			return -1 ;
	}
#endif
	if (np < 0)
		return -1 ;		/* lseek: EINVAL, position unchanged */
	f->pos = np ;
	return np ;
}

sf_count_t
psf_ftell (SF_PRIVATE *psf)
{	MEMFILE *f = mf_of (psf) ;
	if (psf->is_pipe)
		return psf->pipeoffset ;
#ifdef MF_FAULTY
	{	sf_count_t nd_tell = nondet_i64 () ;
		int nd_tellfault = nondet_int () ;
		if (nd_tellfault == 1)
			return nd_tell ;
	}
#endif
	return f->pos ;
}

sf_count_t
psf_get_filelen (SF_PRIVATE *psf)
{	MEMFILE *f = mf_of (psf) ;
#ifdef MF_FAULTY
	{	sf_count_t nd_len = nondet_i64 () ;
		int nd_lenfault = nondet_int () ;
		if (nd_lenfault == 1)
			return nd_len ;
	}
#endif
	return f->len ;
}

int
psf_ftruncate (SF_PRIVATE *psf, sf_count_t len)
{	MEMFILE *f = mf_of (psf) ;
	f->n_trunc ++ ;
	if (len < 0)
		return -1 ;
#ifndef MF_ABSTRACT
	if (len > MF_CAP)
		return -1 ;
#endif
	/* POSIX: extension zero-fills */
	if (len > f->len)
	{	sf_count_t i ;
		for (i = 0 ; i < MF_CAP ; i++)
			if (i >= f->len && i < len)
				f->data [i] = 0 ;
		} ;
	f->len = len ;
	if (f->len_min > len)
		f->len_min = len ;
	return 0 ;
}

int	psf_is_pipe (SF_PRIVATE *psf)	{ return psf->is_pipe ; }
void	psf_fsync (SF_PRIVATE *psf)	{ (void) psf ; }

int
psf_fclose (SF_PRIVATE *psf)
{	MEMFILE *f = mf_of (psf) ;
	/* file_io.c: nothing is closed for virtual I/O or when the caller keeps ownership of the descriptor */
	if (psf->virtual_io)
		return 0 ;
	if (psf->file.do_not_close_descriptor)
	{	psf->file.filedes = -1 ;
		return 0 ;
		} ;
	f->n_close ++ ;
	psf->file.filedes = -1 ;
	return 0 ;
}

int	psf_file_valid (SF_PRIVATE *psf)	{ return psf->file.filedes >= 0 ; }
void	psf_init_files (SF_PRIVATE *psf)	{ psf->file.filedes = -1 ; psf->rsrc.filedes = -1 ; psf->file.savedes = -1 ; }
void	psf_set_file (SF_PRIVATE *psf, int fd)	{ psf->file.filedes = fd ; }
int	psf_copy_filename (SF_PRIVATE *psf, const char *path)	{ (void) path ; psf->file.path [0] = 0 ; psf->file.dir [0] = 0 ; psf->file.name [0] = 0 ; return 0 ; }
int	mf_rsrc_closes, mf_rsrc_closed_fd = -1 ;
int
psf_close_rsrc (SF_PRIVATE *psf)
{	/* file_io.c: psf_close_fd (psf->rsrc.filedes) - closes whatever number is stored there, if >= 0 */
	if (psf->rsrc.filedes >= 0)
	{	mf_rsrc_closes ++ ;
		mf_rsrc_closed_fd = psf->rsrc.filedes ;
		} ;
	psf->rsrc.filedes = -1 ;
	return 0 ;
}
void
psf_use_rsrc (SF_PRIVATE *psf, int on_off)
{	/* as src/file_io.c: switch the handle's descriptor to the resource fork and back */
	if (on_off)
	{	if (psf->file.filedes != psf->rsrc.filedes)
		{	psf->file.savedes = psf->file.filedes ;
			psf->file.filedes = psf->rsrc.filedes ;
			} ;
		}
	else if (psf->file.filedes == psf->rsrc.filedes)
		psf->file.filedes = psf->file.savedes ;
}
