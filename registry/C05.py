from vf import H

HARNESSES = []
_types = [("short", "short", "short"), ("int", "int", "int"), ("float", "float", "float"), ("double", "double", "double")]
for t, tn, ndt in _types:
    for framev in (0, 1):
        for rd in (1, 0):
            for ch in (1, 2, 3):
                nm = "wrap.%s%s_%s.ch%d" % ("read" if rd else "write", "f" if framev else "", tn, ch)
                tiers = ("quick", "thorough") if ch in (1, 2) else ("thorough",)
                HARNESSES.append(H(nm, "L4/wrap_rw.c", link=["common"], stubs=["psf_log_printf", "psf_memset"],
                                   defines={"T": t, "TN": tn, "NDT": ndt, "FRAMEV": framev, "DIR_READ": rd, "CH": ch, "FR_MAX": 4, "MF_CAP": 16},
                                   unwind=20, unwindset=["psf_memset.0:65"], checks="mem", include_env=("log_stub", "memfile", "memset_model"), timeout=300,
                                   functions=["sf_%s%s_%s" % ("read" if rd else "write", "f" if framev else "", tn), "psf_memset"],
                                   bounds="handle state arbitrary within I_open (frames <= 4); len any 64-bit value, exact-size caller buffer for 0 < len <= 2 frames; codec = K-codec contract stub over a 6-frame ghost stream"))

for rd in (1, 0):
    for ch in (1, 2):
      for probe in (0, 1):
        if probe and not (rd and ch == 1):
            continue
        d = {"DIR_READ": rd, "CH": ch, "FR_MAX": 4, "MF_CAP": 40, "MF_MAXIO": 8, "PSF_MEMSET_MAX": 16}
        if probe:
            d["PROBE_rawtail"] = 1
        HARNESSES.append(H("wrap.%s_raw.ch%d%s" % ("read" if rd else "write", ch, ".probe_rawtail" if probe else ""), "L4/wrap_raw.c", link=["common"], stubs=["psf_log_printf", "psf_memset"],
                           defines=d, kf=["rawtail"], probe_for="rawtail" if probe else None,
                           unwind=42, unwindset=["psf_memset.0:17", "psf_fread.0:9", "psf_fwrite.0:9"], checks="mem",
                           include_env=("log_stub", "memfile", "memset_model"), timeout=300,
                           functions=["sf_%s_raw" % ("read" if rd else "write"), "psf_default_seek"],
                           bounds="16-bit samples, dataoffset 4, frames <= 4, request |bytes| <= 2 frames, symbolic file bytes incl. bytes after the audio data"))

import importlib.util, os
def _load(n):
    spec = importlib.util.spec_from_file_location("reg_%s_x" % n, os.path.join(os.path.dirname(os.path.abspath(__file__)), n + ".py"))
    m = importlib.util.module_from_spec(spec); spec.loader.exec_module(m); return m
# codec level (K-codec-read / K-codec-write for every sample-granular codec): read side here, write side under C01/C07
HARNESSES += _load("sg_common").sg_harnesses(("SEL_RD",))
# ALAC staging layer: count / position contract of the block codec's read and write functions
HARNESSES += _load("blk_common").alac_stage_harnesses(("SEL_READ", "SEL_WRITE"))
# MS ADPCM write staging (reads exactly the items the caller supplied)
HARNESSES += _load("blk_common").ms_stage_harnesses()
# staging wrappers of the 16-bit block codecs (IMA, MS, GSM 06.10, G.72x, NMS)
HARNESSES += _load("blk_common").stage_generic_harnesses(("SEL_READ", "SEL_WRITE"))

META = {"assumptions": ["I_open (harness/include/handle.h) is the handle invariant", "codec entry points satisfy K-codec-read/-write/K-seek (proved per codec in the codec harnesses)"],
        "outside": ["request sizes beyond 2 frames at wrapper level (arithmetic is uniform in len)"]}
