from vf import H
import importlib.util, os
def _load(n):
    spec = importlib.util.spec_from_file_location("reg_%s_x" % n, os.path.join(os.path.dirname(os.path.abspath(__file__)), n + ".py"))
    m = importlib.util.module_from_spec(spec); spec.loader.exec_module(m); return m
ALL_UNITS = _load("allunits").ALL_UNITS

HARNESSES = []
def leaf_harnesses():
    out = []
    for sel, flen, unw, extra in (("SEL_FMT", 64, 40, {}), ("SEL_BEXT", 64, 16, {}), ("SEL_CART", 64, 16, {}), ("SEL_PEAK", 64, 10, {"CH": 2}),
                                  ("SEL_LIST", 48, 8, {}), ("SEL_SMPL", 96, 20, {}), ("SEL_ACID", 64, 10, {})):
        d = {sel: 1, "STUB_APPEND_SNPRINTF": 1, "FLEN_MAX": flen, "MF_CAP": 4, "MF_MAXIO": 96, "MF_ABSTRACT": 1, "SNP_MAX": 40, "PSF_MEMSET_MAX": 64}
        d.update(extra)
        d["FLEN_FIXED"] = flen
        out.append(H("wavleaf." + sel[4:].lower(), "C03/wav_leaf.c", link=["common", "float32", "double64", "wavlike", "chunk", "strings", "broadcast", "cart", "id3", "audio_detect", "chanmap", "command"], stubs=["psf_log_printf", "psf_memset"] + (["append_snprintf"] if sel == "SEL_FMT" else []),
                     defines=d, unwind=unw, unwindset=["psf_fread.0:97", "psf_memset.0:65", "strlen.0:70", "psf_binheader_readf.1:40", "snprintf.0:41", "snprintf.1:41", "vsnprintf.0:70", "vsnprintf.1:70"],
                     checks="mem", include_env=("log_stub", "memfile", "memset_model", "snprintf_model", "libm_model"), timeout=600,
                     tiers=("quick", "thorough") if sel in ("SEL_FMT", "SEL_BEXT", "SEL_CART", "SEL_PEAK", "SEL_ACID") else ("thorough",),
                     functions=["wavlike_read_fmt_chunk", "wavlike_read_bext_chunk", "wavlike_read_cart_chunk", "wavlike_read_peak_chunk",
                                "wavlike_subchunk_parse", "exif_subchunk_parse", "wav_read_smpl_chunk", "wav_read_acid_chunk", "psf_binheader_readf", "header_read", "header_seek"],
                     bounds="chunk size any 32-bit value, file content nondeterministic, file length 0..%d" % flen))
    return out
HARNESSES.append(H("gate", "C03/gate.c", link=["common"], stubs=["psf_log_printf", "psf_memset"], defines={"MF_CAP": 16, "SNP_MAX": 40, "PSF_MEMSET_MAX": 64}, unwind=4, checks="mem",
                   include_env=("log_stub", "memfile", "memset_model", "snprintf_model"), timeout=120, functions=["validate_sfinfo", "validate_psf"],
                   bounds="every SF_INFO field and data-geometry field symbolic (full width)"))
HARNESSES += leaf_harnesses()
# L0: header-cache primitives (psf_binheader_readf, header_read/seek/gets, bump) from an arbitrary cache state
def readf_harnesses():
    out = []
    for sel in ("SEL_J", "SEL_B", "SEL_P", "SEL_FIXED", "SEL_G"):
        for ceiling in (1, 2):
            for pipe in ((0, 1) if sel in ("SEL_J", "SEL_P") else (0,)):
                d = {sel: 1, "LEN": 32, "LIBSNDFILE_VERIF_MAX_HEADER": 32 * ceiling, "PIPE_FIXED": pipe, "MF_CAP": 4, "MF_MAXIO": 210, "MF_ABSTRACT": 1, "SNP_MAX": 40, "PSF_MEMSET_MAX": 64, "MEMCPY_MAX": 70}
                out.append(H("readf.%s.%s%s" % (sel[4:].lower(), "ceiling" if ceiling == 1 else "grow1", ".pipe" if pipe else ""), "C03/readf.c", link=["common"], stubs=["psf_log_printf", "psf_memset"], defines=d,
                             unwind=6, unwindset=["psf_fread.0:211", "psf_binheader_readf.0:12", "psf_binheader_readf.1:40", "header_gets.0:26", "header_seek.0:4", "memcpy.0:71", "memset.0:71"],
                             checks="mem", include_env=("log_stub", "memfile", "memset_model", "snprintf_model", "memcpy_model"), timeout=400,
                             # measured: j/b/p 13..45 s; fixed-width at the ceiling ~120 s; fixed-width with a growth step and "G": no verdict (300 s / 24 GB)
                             tiers=(("quick", "thorough") if sel in ("SEL_J", "SEL_B", "SEL_P") else ("thorough",) if (sel == "SEL_FIXED" and ceiling == 1) else ()),
                             functions=["psf_binheader_readf", "header_read", "header_seek", "header_gets", "psf_bump_header_allocation"],
                             bounds="cache block of 32 bytes (exact heap block), %s (hook LIBSNDFILE_VERIF_MAX_HEADER), indx, end <= len symbolic; file length and position 0..200, %s; directive argument symbolic" % (
                                 "at its ceiling: growth refused" if ceiling == 1 else "one growth step (to 64 bytes) possible", "pipe" if pipe else "regular file")))
    return out
HARNESSES += readf_harnesses()
# sequences of calls after a successful open: the L4 wrapper harnesses start from any I_open state (C05/C06/C17)
HARNESSES += [h for h in _load("C05").HARNESSES if h.name.startswith("wrap.") and ".ch2" in h.name and "probe" not in h.name]
# ... including sf_command with every command id / datasize on an arbitrary handle state
HARNESSES += [h for h in _load("C17").HARNESSES if h.name.startswith("cmd.SFC_GET") or h.name.startswith("cmd.0x")]
# fixed-layout container parsers + sane-info gate on arbitrary files (thorough tier; see C16 registry)
HARNESSES += _load("C16").oc_harnesses()
# chunked containers: chunk sequences with symbolic contents (AIFF), parse + gate + close
HARNESSES += _load("C16").seq_harnesses()
# Sound Designer II resource fork parser on arbitrary bytes
HARNESSES += _load("C16").sd2_harnesses()
META = {"assumptions": ["E-memfile (content nondeterministic)", "layering by contracts (DESIGN 3.3)"], "outside": ["whole-file parse of the chunked containers in one query", "files longer than the stated length"]}
