/* C20 H2: G.711 through the float / double entry points (src/ulaw.c, src/alaw.c:
 * X_read_X2f / X2d and X_write_f2X / d2X with the default normalisation):
 * for EVERY code c, what a normalised float/double read delivers for c is
 * encoded back to c by the corresponding write (transcoding G.711 -> float ->
 * G.711 is the identity on codes; mu-law: the two zero codes collapse).
 * The wrappers are called over E-memfile so that the scale each one selects
 * from the handle is part of what is executed.
 */
#include "verif.h"
#include <string.h>
#include "ulaw.c"
#include "alaw.c"
#include "memfile.h"

static SF_PRIVATE g_psf ;

int
main (void)
{	SF_PRIVATE *psf = &g_psf ;
	unsigned char nd_code = nondet_uchar (), back ;
	FD_T v = 0 ;
	sf_count_t n ;

	psf->file.filedes = 0 ; psf->file.mode = SFM_RDWR ;
	psf->sf.channels = 1 ;
	psf->norm_float = SF_TRUE ; psf->norm_double = SF_TRUE ;
	mf [0].data [0] = nd_code ; mf [0].len = 1 ; mf [0].len_min = 1 ; mf [0].pos = 0 ;
	n = READ_FN (psf, &v, 1) ;
	VASSERT (n == 1, "one item read") ;
	mf [0].pos = 0 ;
	n = WRITE_FN (psf, &v, 1) ;
	VASSERT (n == 1, "one item written") ;
	back = mf [0].data [0] ;
#ifdef IS_ULAW
	VASSERT (back == nd_code || (nd_code == 0x7F && back == 0xFF), "mu-law: encode (decode (c)) == c through the float/double API (modulo negative zero)") ;
#else
	VASSERT (back == nd_code, "A-law: encode (decode (c)) == c through the float/double API") ;
#endif
	WITNESS_END () ;
	return 0 ;
}
