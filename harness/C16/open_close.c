/* C16 H1/H2 (+ C03 L2 for the fixed-layout containers, C09 H3): the real
 * X_open in READ mode on an ARBITRARY file of <= FLEN_MAX bytes (every parse
 * depth, success or failure), followed by the real psf_close. CBMC's
 * --memory-leak-check proves that no allocation survives; E-memfile counts
 * the descriptor closes. With MODE_WRITE the handle is opened for writing,
 * optionally given metadata, and closed without any audio I/O.
 */
#include "verif.h"
#include <stdlib.h>
#include <string.h>
#include "sndfile.c"
#include CONTAINER_FILE
#include "memfile.h"

static SF_PRIVATE g_static ;
static unsigned char g_hdr [FLEN_MAX + 264] ;

int
main (void)
{	SF_PRIVATE *psf, *hp ;
	SF_INFO si ;
	unsigned char nd_file [FLEN_MAX] ;
	int nd_flen = nondet_int () ;
	int rc, k ;

	ND_FILL (nd_file, FLEN_MAX, uchar) ;
	VASSUME (nd_flen >= 0 && nd_flen <= FLEN_MAX) ;
	for (k = 0 ; k < FLEN_MAX ; k++) mf [0].data [k] = nd_file [k] ;
	mf [0].len = nd_flen ;
	mf [0].pos = 0 ;

	/* The parse runs on a static handle (typed, field-sensitive: fast); the state it leaves is then moved
	** into a heap handle - what psf_allocate () would have returned - on which the REAL psf_close runs,
	** so every block the parser allocated must be released by psf_close for the leak check to pass. */
	psf = &g_static ;
	{	static const SF_PRIVATE zero_psf ;
		*psf = zero_psf ;
		psf->header.ptr = g_hdr ;
		psf->header.len = sizeof (g_hdr) ;
	}
	psf_init_files (psf) ;
	psf->file.filedes = 0 ;
	memset (&si, 0, sizeof (si)) ;
#ifdef MODE_WRITE
	psf->file.mode = SFM_WRITE ;
	si.samplerate = 8000 ; si.channels = 1 ; si.format = FMT ;
	psf->sf = si ;
	mf [0].len = 0 ;
#else
	psf->file.mode = SFM_READ ;
	psf->sf.format = FMT & SF_FORMAT_TYPEMASK ;
#endif
	/* what psf_open_file sets before dispatching (preopen.h, on the heap handle) */
	psf->Magick = SNDFILE_MAGICK ;
	psf->norm_float = SF_TRUE ; psf->norm_double = SF_TRUE ;
	psf->dataoffset = -1 ; psf->datalength = -1 ; psf->read_current = -1 ; psf->write_current = -1 ;
	psf->rwf_endian = SF_ENDIAN_LITTLE ;
	psf->seek = psf_default_seek ;
	psf->float_max = -1.0 ;
	psf->sf.sections = 1 ;
	psf->sf.seekable = SF_TRUE ;
	psf->filelength = psf_get_filelen (psf) ;
	psf->last_op = psf->file.mode ;
#ifdef MODE_WRITE
	psf->bytewidth = BW ;
#endif

	rc = OPEN_FN (psf) ;
#ifdef MODE_WRITE
	VASSERT (rc == 0, "write open succeeds") ;
#endif
	if (rc == 0)
	{	/* post-open gate of psf_open_file: whatever passes it is a sane SF_INFO (C03) */
		if (validate_sfinfo (&psf->sf) && validate_psf (psf))
		{	VASSERT (psf->sf.channels >= 1 && psf->sf.channels <= SF_MAX_CHANNELS && psf->sf.samplerate >= 1 && psf->sf.frames >= 0 && psf->sf.sections >= 1,
					"a handle that passes the open gate has 1 <= channels <= 1024, samplerate >= 1, frames >= 0, sections >= 1") ;
			VASSERT (psf->blockwidth >= 0 && psf->bytewidth >= 0 && psf->dataoffset >= 0, "geometry fields are non-negative") ;
			} ;
		} ;
	hp = malloc (sizeof (SF_PRIVATE)) ;
	VASSUME (hp != NULL) ;
	*hp = *psf ;
	hp->header.ptr = malloc (16) ;
	rc = psf_close (hp) ;
	VASSERT (rc == 0, "close returns 0 when the underlying close succeeds") ;
	VASSERT (mf [0].n_close == 1, "the descriptor is closed exactly once") ;
	WITNESS_END () ;
	return 0 ;
}
