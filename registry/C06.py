from vf import H

HARNESSES = []
def seek_harnesses(prefix=""):
    out = []
    for ch in (1, 2):
        common = dict(link=["common"], stubs=["psf_log_printf", "psf_memset"], unwind=4, checks="arith",
                      include_env=("log_stub", "memfile", "memset_model"), timeout=300, functions=["sf_seek"],
                      bounds="handle state arbitrary within I_open; offset any value with |offset| < 2^40; whence any int; codec seek = K-seek stub (succeeds or fails)")
        out.append(H(prefix + "wrap.seek.ch%d" % ch, "L4/wrap_seek.c", defines={"CH": ch, "FR_MAX": 4, "MF_CAP": 16}, kf=["seekfail"], **common))
        if ch == 1:
          out.append(H(prefix + "wrap.seek.ch%d.probe_seekfail" % ch, "L4/wrap_seek.c", defines={"CH": ch, "FR_MAX": 4, "MF_CAP": 16, "PROBE_seekfail": 1},
                     probe_for="seekfail", **common))
    return out
HARNESSES += seek_harnesses()

META = {"assumptions": ["I_open handle invariant", "K-seek: codec seek returns the target or -1"], "outside": []}
