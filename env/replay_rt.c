/* replay_rt.c - native replay runtime: nondet_T() pop the solver's values.
 * Replay file ($VERIF_REPLAY_VALUES): one value per line, "<width> <hex>".
 */
#if ! defined (__CPROVER__) && ! defined (VERIF_CBMC)
#include <stdio.h>
#include <stdlib.h>
#include <string.h>
#include <stdint.h>

static int vf_loaded = 0 ;
static int vf_n = 0, vf_i = 0 ;
static struct { int width ; uint64_t bits ; } *vf_q ;

static void
vf_load (void)
{	const char *path = getenv ("VERIF_REPLAY_VALUES") ;
	FILE *f ;
	int w, cap = 0 ;
	unsigned long long v ;
	vf_loaded = 1 ;
	if (path == NULL || (f = fopen (path, "r")) == NULL)
		return ;
	while (fscanf (f, "%d %llx", &w, &v) == 2)
	{	if (vf_n >= cap)
		{	cap = cap ? 2 * cap : 256 ;
			vf_q = realloc (vf_q, cap * sizeof (*vf_q)) ;
			} ;
		vf_q [vf_n].width = w ;
		vf_q [vf_n].bits = v ;
		vf_n ++ ;
		} ;
	fclose (f) ;
}

static uint64_t
vf_pop (int width)
{	if (! vf_loaded) vf_load () ;
	if (vf_i >= vf_n)
		return 0 ;	/* values the solver did not care about */
	if (vf_q [vf_i].width != width)
	{	fprintf (stderr, "REPLAY-DESYNC: want width %d, have %d at %d\n", width, vf_q [vf_i].width, vf_i) ;
		exit (79) ;
		} ;
	return vf_q [vf_i ++].bits ;
}

int		nondet_int (void)	{ return (int) (uint32_t) vf_pop (32) ; }
unsigned	nondet_uint (void)	{ return (uint32_t) vf_pop (32) ; }
short		nondet_short (void)	{ return (short) (uint16_t) vf_pop (16) ; }
unsigned short	nondet_ushort (void)	{ return (uint16_t) vf_pop (16) ; }
signed char	nondet_schar (void)	{ return (signed char) (uint8_t) vf_pop (8) ; }
unsigned char	nondet_uchar (void)	{ return (uint8_t) vf_pop (8) ; }
int64_t		nondet_i64 (void)	{ return (int64_t) vf_pop (64) ; }
uint64_t	nondet_u64 (void)	{ return vf_pop (64) ; }
float		nondet_float (void)	{ uint32_t b = (uint32_t) vf_pop (32) ; float f ; memcpy (&f, &b, 4) ; return f ; }
double		nondet_double (void)	{ uint64_t b = vf_pop (64) ; double d ; memcpy (&d, &b, 8) ; return d ; }

void
vf_fail (const char *msg, const char *file, int line)
{	fprintf (stderr, "REPLAY-FAIL: %s (%s:%d)\n", msg, file, line) ;
	fflush (NULL) ;
	_exit (77) ;
}

void
vf_assume_fail (const char *cond, const char *file, int line)
{	fprintf (stderr, "REPLAY-ASSUME-FALSE: %s (%s:%d)\n", cond, file, line) ;
	fflush (NULL) ;
	_exit (79) ;
}
#endif
