/* chunk sequences for chunkseq.c (ids and declared sizes concrete, contents symbolic) */
#ifndef SEQS_H
#define SEQS_H

/* ---- AIFF building blocks ---- */
#define AIFF_FORM(type, total)	ID4 ("FORM") ; BE32 ((total) - 8) ; ID4 (type) ;
/* COMM of an AIFF file: channels (symbolic 16 bit), frames (symbolic), bits (grid: BITS), rate = 80-bit float (symbolic) */
#ifndef CH
#define CH 2
#endif
/* (channel count on the grid: frames = datalength / blockwidth is a 64-bit division by a symbolic value otherwise) */
#define AIFF_COMM(bits)		ID4 ("COMM") ; BE32 (18) ; BE16 (CH) ; SYM (4) ; BE16 (bits) ; SYM (10) ;
/* AIFC COMM: + compression type (grid) + pascal string name (1 char) */
#define AIFC_COMM(bits, ctype)	ID4 ("COMM") ; BE32 (24) ; BE16 (CH) ; SYM (4) ; BE16 (bits) ; SYM (10) ; ID4 (ctype) ; B1 (1) ; B1 ('x') ;
/* MARK with a symbolic marker count (0..2 by assumption) and two marker records: id, position, pascal string of length 1 */
#define AIFF_MARK2		ID4 ("MARK") ; BE32 (2 + 2 * 8) ; B1 (0) ; SYMR (0, 2) ; SYM (2) ; SYM (4) ; B1 (1) ; SYM (1) ; SYM (2) ; SYM (4) ; B1 (1) ; SYM (1) ;
/* MARK whose pascal string lengths are symbolic (0..3): record sizes vary inside the chunk */
#define AIFF_MARKV		ID4 ("MARK") ; BE32 (2 + 2 * 10) ; B1 (0) ; SYMR (0, 2) ; SYM (2) ; SYM (4) ; SYMR (0, 3) ; SYM (3) ; SYM (2) ; SYM (4) ; SYMR (0, 3) ; SYM (3) ;
#define AIFF_INST		ID4 ("INST") ; BE32 (20) ; SYM (20) ;
#define AIFF_SSND(d)		ID4 ("SSND") ; BE32 (8 + (d)) ; BE32 (0) ; BE32 (0) ; SYM (d) ;
#define AIFF_SSND_SYMOFF(d)	ID4 ("SSND") ; BE32 (8 + (d)) ; SYM (4) ; SYM (4) ; SYM (d) ;
#define AIFF_PEAK(ch)		ID4 ("PEAK") ; BE32 (8 + 8 * (ch)) ; SYM (8 + 8 * (ch)) ;
#define AIFF_PEAK_SZ(sz)	ID4 ("PEAK") ; BE32 (sz) ; SYM (16) ;
#define AIFF_TEXT(id, n)	ID4 (id) ; BE32 (n) ; SYM (n) ;
#define AIFF_COMT		ID4 ("COMT") ; BE32 (2 + 8 + 2) ; B1 (0) ; SYMR (0, 1) ; SYM (4) ; SYM (2) ; B1 (0) ; SYMR (0, 2) ; SYM (2) ;
#define AIFF_APPL(n)		ID4 ("APPL") ; BE32 (n) ; SYM (n) ;
#define AIFF_BASC		ID4 ("basc") ; BE32 (84) ; SYM (24) ; ZERO (60) ;
#define AIFF_CHAN(n)		ID4 ("CHAN") ; BE32 (n) ; SYM (n) ;
#define AIFF_FVER		ID4 ("FVER") ; BE32 (4) ; SYM (4) ;

#if SEQ == 1	/* COMM MARK INST SSND: loops converted through the marker table */
#define SEQ_BODY	AIFF_FORM ("AIFF", 12 + 26 + 26 + 28 + 20) AIFF_COMM (16) AIFF_MARK2 AIFF_INST AIFF_SSND (4)
#elif SEQ == 2	/* MARK then PEAK before COMM: rejected in the middle of the chunk loop */
#define SEQ_BODY	AIFF_FORM ("AIFF", 12 + 26 + 24 + 26) AIFF_MARK2 AIFF_PEAK (1) AIFF_COMM (16)
#elif SEQ == 3	/* COMM MARK, PEAK of a wrong size: rejected after the marker table exists */
#define SEQ_BODY	AIFF_FORM ("AIFF", 12 + 26 + 26 + 24 + 20) AIFF_COMM (16) AIFF_MARK2 AIFF_PEAK_SZ (17) AIFF_SSND (4)
#elif SEQ == 4	/* two MARK chunks, variable-length names, INST, no SSND */
#define SEQ_BODY	AIFF_FORM ("AIFF", 12 + 26 + 30 + 26 + 28) AIFF_COMM (8) AIFF_MARKV AIFF_MARK2 AIFF_INST
#elif SEQ == 5	/* text chunks + COMT + APPL */
#define SEQ_BODY	AIFF_FORM ("AIFF", 12 + 26 + 12 + 12 + 20 + 16 + 20) AIFF_COMM (24) AIFF_TEXT ("NAME", 4) AIFF_TEXT ("(c) ", 3) B1 (0) ; AIFF_COMT AIFF_APPL (8) AIFF_SSND (4)
#elif SEQ == 6	/* AIFC: FVER, COMM with compression type on the grid, CHAN, SSND with symbolic offset/blocksize */
#define SEQ_BODY	AIFF_FORM ("AIFC", 12 + 12 + 32 + 20 + 24) AIFF_FVER AIFC_COMM (16, CTYPE) AIFF_CHAN (12) AIFF_SSND_SYMOFF (8)
#elif SEQ == 7	/* basc + PEAK (well-formed size, symbolic content) */
#define SEQ_BODY	AIFF_FORM ("AIFF", 12 + 26 + 92 + 24 + 20) AIFF_COMM (16) AIFF_BASC AIFF_PEAK (1) AIFF_SSND (4)
#elif SEQ == 8	/* COMM with symbolic sample size, nothing else */
#define SEQ_BODY	AIFF_FORM ("AIFF", 12 + 26 + 16) ID4 ("COMM") ; BE32 (18) ; SYM (18) ; AIFF_SSND (0)
#else
#error "SEQ"
#endif
#endif
