/* C03 L1: WAV/W64/RF64 leaf chunk parsers on ARBITRARY chunk contents with a
 * SYMBOLIC chunk size (full 32 bit): the real parser + the real
 * psf_binheader_readf over a file whose bytes are nondeterministic (E-memfile,
 * MF_ABSTRACT with an empty concrete region) and whose length is symbolic.
 * Obligations: no invalid memory access, loops bounded, sizes stored never
 * exceed the buffers they index, error or success - never anything else.
 */
#include "verif.h"
#include <stdlib.h>
#include <string.h>
#include "sndfile.c"
#include "wav.c"
#include "memfile.h"
#include "preopen.h"

#define HDRLEN	512
static SF_PRIVATE g_psf ;

int
main (void)
{	SF_PRIVATE *psf = &g_psf ;
	SF_INFO si ;
	uint32_t nd_size = nondet_uint () ;
	int nd_flen = nondet_int () ;
	int nd_start = 8 ;	/* the container loop has read the chunk id and size (concrete cache position: R8) */
	int rc ;

	memset (&si, 0, sizeof (si)) ;
#ifdef FLEN_FIXED
	nd_flen = FLEN_FIXED ;
#endif
	VASSUME (nd_flen >= 0 && nd_flen <= FLEN_MAX) ;
	VASSUME (nd_start <= nd_flen) ;
	mf [0].len = nd_flen ;
	mf [0].pos = 0 ;
	/* the header cache is a heap block as psf_allocate () makes it: the parsers may grow it (psf_bump_header_allocation -> realloc) */
	{	unsigned char *hdr = calloc (1, HDRLEN) ;
		VASSUME (hdr != NULL) ;
		verif_pre_open (psf, &si, SFM_READ, 0, hdr, HDRLEN) ;
	}
	psf->container_data = calloc (1, sizeof (WAVLIKE_PRIVATE)) ;
	VASSUME (psf->container_data != NULL) ;
	psf->sf.format = SF_FORMAT_WAV ;
	/* the container loop has consumed the first nd_start bytes (chunk id + size ...) */
	psf_binheader_readf (psf, "j", nd_start) ;

#if defined (SEL_FMT)
	rc = wavlike_read_fmt_chunk (psf, (int) nd_size) ;
	if (rc == 0)
	{	WAVLIKE_PRIVATE *wpriv = psf->container_data ;
		VASSERT (psf->sf.channels == wpriv->wav_fmt.min.channels, "fmt: channel count taken from the chunk") ;
		if (psf->channel_map != NULL)
			VASSERT (V_OBJSIZE (psf->channel_map) >= (size_t) psf->sf.channels * sizeof (int), "fmt: channel map has one slot per channel") ;
		} ;
#elif defined (SEL_BEXT)
	rc = wavlike_read_bext_chunk (psf, nd_size) ;
	if (psf->broadcast_16k != NULL)
		VASSERT (psf->broadcast_16k->coding_history_size <= sizeof (psf->broadcast_16k->coding_history), "bext: stored coding history size fits its buffer") ;
#elif defined (SEL_CART)
	rc = wavlike_read_cart_chunk (psf, nd_size) ;
	if (psf->cart_16k != NULL)
		VASSERT (psf->cart_16k->tag_text_size <= sizeof (psf->cart_16k->tag_text), "cart: stored tag text size fits its buffer") ;
#elif defined (SEL_PEAK)
	psf->sf.channels = CH ;
	rc = wavlike_read_peak_chunk (psf, nd_size) ;
	if (rc == 0 && psf->peak_info != NULL)
		VASSERT (V_OBJSIZE (psf->peak_info) >= sizeof (PEAK_INFO) + CH * sizeof (PEAK_POS), "PEAK: one slot per channel") ;
#elif defined (SEL_LIST)
	rc = wavlike_subchunk_parse (psf, LIST_MARKER, nd_size) ;
#elif defined (SEL_SMPL)
	rc = wav_read_smpl_chunk (psf, nd_size) ;
	if (psf->instrument != NULL)
		VASSERT (psf->instrument->loop_count >= 0 && psf->instrument->loop_count <= (int) ARRAY_LEN (psf->instrument->loops), "smpl: loop count within the loops array") ;
#elif defined (SEL_ACID)
	rc = wav_read_acid_chunk (psf, nd_size) ;
#else
#error "select"
#endif
	VASSERT (rc >= 0 && rc <= SFE_MAX_ERROR, "leaf parser returns 0 or a defined error code") ;
	VASSERT (psf->header.indx >= 0 && psf->header.indx <= psf->header.end && psf->header.end <= psf->header.len, "header cache invariant preserved") ;
	WITNESS_END () ;
	return 0 ;
}
