#!/usr/bin/env python3
"""Confirms sub-agent seeded changes in scratch worktrees (never in /repo):
patch applies to /repo HEAD, builds, the 143-test suite passes, the demonstration
passes on the unmodified library and fails with the patch. Copies confirmed
ones into /verif/seeded/<id>_<mk>/ with meta.json."""
import os, sys, json, subprocess, shutil, time
from concurrent.futures import ThreadPoolExecutor
SEED = os.environ.get("SEED_DIR", "/tmp/seed_out")
MK_MAP = {"m1": "m3", "m2": "m4"} if os.environ.get("SEED_ROUND2") else {}
OUT = "/verif/seeded"
def sh(cmd, cwd=None, timeout=1800):
    p = subprocess.run(cmd, shell=True, cwd=cwd, stdout=subprocess.PIPE, stderr=subprocess.STDOUT, timeout=timeout)
    return p.returncode, p.stdout.decode("utf-8", "replace")
def build(wt):
    rc, o = sh("cmake -G Ninja -B _build -DCMAKE_BUILD_TYPE=RelWithDebInfo -DCMAKE_C_FLAGS=-Wno-error > /dev/null && cmake --build _build -j4 2>&1 | tail -5", cwd=wt)
    return rc, o
def demo(wt, src, exe, extra=""):
    rc, o = sh("cc -g %s -I%s/include -I%s/_build/include %s %s/_build/libsndfile.a -lm -o %s" % (extra, wt, wt, src, wt, exe))
    if rc != 0:
        return None, "compile failed: " + o[-800:]
    try:
        rc, o = sh("cd /tmp && timeout 120 " + exe)
    except subprocess.TimeoutExpired:
        return 124, "timeout"
    return rc, o[-600:]
def one(job):
    pid, mk, base = job
    d = os.path.join(SEED, pid, mk)
    res = {"property": pid, "mutant": mk, "repo_head": head}
    wt = "/tmp/vs_%s_%s" % (pid, mk)
    sh("git -C /repo worktree remove --force %s" % wt)
    rc, o = sh("git -C /repo worktree add --detach %s HEAD" % wt)
    try:
        rc, o = sh("git apply %s/patch.diff" % d, cwd=wt)
        res["applies"] = rc == 0
        if rc != 0:
            res["error"] = o[-500:]; return res
        rc, o = build(wt)
        res["builds"] = rc == 0
        if rc != 0:
            res["error"] = o[-800:]; return res
        rc, o = sh("ctest --test-dir _build -j4 --timeout 900 2>&1 | tail -4", cwd=wt)
        res["tests_pass"] = "100% tests passed" in o
        res["tests_tail"] = o[-300:]
        extra = "-fsanitize=address" if "fsanitize=address" in open(os.path.join(d, "README.md")).read() and False else ""
        rb, ob = demo(base, os.path.join(d, "demo.c"), "/tmp/vs_demo_%s_%s_base" % (pid, mk))
        rp, op = demo(wt, os.path.join(d, "demo.c"), "/tmp/vs_demo_%s_%s_patched" % (pid, mk))
        res["demo_baseline_rc"] = rb; res["demo_patched_rc"] = rp
        res["demo_baseline_out"] = ob; res["demo_patched_out"] = op
        res["confirmed"] = bool(res["tests_pass"] and rb == 0 and rp not in (0, None))
        return res
    finally:
        sh("git -C /repo worktree remove --force %s" % wt)
        for s in ("base", "patched"):
            try: os.remove("/tmp/vs_demo_%s_%s_%s" % (pid, mk, s))
            except OSError: pass
rc, head = sh("git -C /repo rev-parse --short HEAD"); head = head.strip()
base = "/tmp/vs_base"
sh("git -C /repo worktree remove --force %s" % base)
sh("git -C /repo worktree add --detach %s HEAD" % base)
rc, o = build(base); assert rc == 0, o
jobs = []
only = sys.argv[1:]
for pid in sorted(os.listdir(SEED)):
    for mk in sorted(os.listdir(os.path.join(SEED, pid))):
        if os.path.isfile(os.path.join(SEED, pid, mk, "patch.diff")) and (not only or pid in only):
            jobs.append((pid, mk, base))
with ThreadPoolExecutor(max_workers=3) as ex:
    for res in ex.map(one, jobs):
        pid, mk = res["property"], res["mutant"]
        print(pid, mk, "confirmed" if res.get("confirmed") else "NOT-CONFIRMED", {k: res.get(k) for k in ("applies", "builds", "tests_pass", "demo_baseline_rc", "demo_patched_rc")}, flush=True)
        od = os.path.join(OUT, "%s_%s" % (pid, MK_MAP.get(mk, mk)))
        if res.get("confirmed"):
            os.makedirs(od, exist_ok=True)
            for f in ("patch.diff", "demo.c", "README.md"):
                shutil.copy(os.path.join(SEED, pid, mk, f), od)
            readme = open(os.path.join(SEED, pid, mk, "README.md")).read()
            meta = {"property": pid, "breaks": readme[:1500], "verified_against_repo_head": res["repo_head"],
                    "what_i_ran": ["git worktree add (scratch) + git apply patch.diff", "cmake -G Ninja + cmake --build", "ctest -j4 (143 tests): " + res["tests_tail"].strip().splitlines()[-1] if res["tests_tail"].strip() else "",
                                   "demo.c vs unmodified library: rc=%s" % res["demo_baseline_rc"], "demo.c vs patched library: rc=%s" % res["demo_patched_rc"]],
                    "demo_patched_output": res["demo_patched_out"], "detected_by": None}
            json.dump(meta, open(os.path.join(od, "meta.json"), "w"), indent=1)
        else:
            json.dump(res, open(os.path.join(SEED, pid, mk, "verify_fail.json"), "w"), indent=1)
sh("git -C /repo worktree remove --force %s" % base)
