#!/bin/bash
# try_seed.sh <seed dir name under /verif/seeded> <property> [run_check args...]
# applies the seeded patch to /repo, runs the check, and always reverts.
set -u
N=$1; S=/verif/seeded/$1; P=$2; shift 2
cd /repo && git diff --quiet || { echo "/repo not clean"; exit 9; }
git -C /repo apply "$S/patch.diff" || { echo "patch does not apply"; exit 9; }
cd /verif && python3 run_check.py "$P" --no-evidence "$@"; rc=$?
git -C /repo checkout -- . 
echo "try_seed $N on $P -> exit $rc"
exit $rc
