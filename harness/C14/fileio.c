/* C14 H1/H2 (+ C15 H5): the REAL src/file_io.c (POSIX branch) over the E-posix
 * model. Route equivalence: the descriptor route with an embedding offset k
 * and the virtual-I/O route over the extracted sub-file return the same
 * values and bytes for every (position, whence, count); descriptor ownership:
 * psf_fclose / psf_close_rsrc close exactly the descriptors the library owns.
 */
#include "verif.h"
#include <stdlib.h>
#include <string.h>
#include "file_io.c"
#include "posix_model.h"

#ifndef FDN
#define FDN 3
#endif
#if FDN == 0
#define APP_A 1
#define APP_B 2
#else
#define APP_A 0
#define APP_B 1
#endif

static SF_PRIVATE g_fd, g_vio ;

/* virtual I/O callbacks over the sub-file [k, k + sublen) of the same bytes */
static sf_count_t v_k, v_sublen, v_pos ;
static sf_count_t v_len (void *u) { (void) u ; return v_sublen ; }
static sf_count_t v_seek (sf_count_t off, int whence, void *u)
{	sf_count_t np ;
	(void) u ;
	if (whence == SEEK_SET) np = off ; else if (whence == SEEK_CUR) np = v_pos + off ; else np = v_sublen + off ;
	if (np < 0) return -1 ;
	v_pos = np ;
	return np ;
}
static sf_count_t v_read (void *ptr, sf_count_t count, void *u)
{	sf_count_t avail = v_pos < v_sublen ? v_sublen - v_pos : 0, n = count < avail ? count : avail, i ;
	(void) u ;
	for (i = 0 ; i < count && i < PX_MAXIO ; i++)
	{	if (i >= n) break ;
		((unsigned char *) ptr) [i] = px.data [v_k + v_pos + i] ;
		} ;
	v_pos += n ;
	return n ;
}
static sf_count_t v_tell (void *u) { (void) u ; return v_pos ; }

int
main (void)
{	SF_PRIVATE *a = &g_fd, *b = &g_vio ;
	unsigned char nd_disk [PX_CAP] ;
	int k ;

	ND_FILL (nd_disk, PX_CAP, uchar) ;
	for (k = 0 ; k < PX_CAP ; k++) px.data [k] = nd_disk [k] ;

#if defined (SEL_ROUTES)
	{	int nd_k = nondet_int () ;
		int nd_sub = nondet_int () ;
		int nd_tail = nondet_int () ;
		sf_count_t nd_off = nondet_i64 () ;
		int nd_whence = nondet_int () ;
		int nd_cnt = nondet_int () ;
		int nd_bytes = nondet_int () ;
		unsigned char ba [PX_MAXIO + 2], bb [PX_MAXIO + 2] ;
		sf_count_t ra, rb ;

		VASSUME (nd_k >= 0 && nd_k <= 8 && nd_sub >= 0 && nd_sub <= 24 && nd_tail >= 0 && nd_tail <= 8) ;
		px.len = nd_k + nd_sub + nd_tail ;		/* leading junk + embedded file + trailing junk */
		px.fd [3].open = 1 ;
		px.fd [3].pos = nd_k ;				/* descriptor positioned at the start of the embedded file */
		a->file.filedes = 3 ;
		a->file.mode = SFM_READ ;
		a->fileoffset = nd_k ;
		a->filelength = nd_sub ;			/* as the container parser trims it */
		b->virtual_io = SF_TRUE ;
		b->file.mode = SFM_READ ;
		b->vio.get_filelen = v_len ; b->vio.seek = v_seek ; b->vio.read = v_read ; b->vio.tell = v_tell ;
		v_k = nd_k ; v_sublen = nd_sub ; v_pos = 0 ;

		VASSERT (psf_ftell (a) == psf_ftell (b), "tell agrees at the start of the embedded file") ;
		if (nd_k > 0 && nd_sub > 0)
			VASSERT (psf_get_filelen (a) == psf_get_filelen (b), "length of an embedded file = length of the extracted file") ;

		VASSUME (nd_whence == SEEK_SET || nd_whence == SEEK_CUR) ;
		VASSUME (nd_off >= 0 && nd_off <= nd_sub) ;
		ra = psf_fseek (a, nd_off, nd_whence) ;
		rb = psf_fseek (b, nd_off, nd_whence) ;
		VASSERT (ra == rb, "seek returns the same sub-file position on both routes") ;
		VASSERT (psf_ftell (a) == psf_ftell (b), "tell agrees after the seek") ;

		VASSUME (nd_bytes >= 1 && nd_bytes <= 4 && nd_cnt >= 0 && nd_cnt <= PX_MAXIO && nd_cnt * nd_bytes <= PX_MAXIO) ;
		VASSUME (nd_off + (sf_count_t) nd_cnt * nd_bytes <= nd_sub) ;	/* reads inside the embedded window (parsers bound them by filelength) */
		for (k = 0 ; k < PX_MAXIO + 2 ; k++) ba [k] = bb [k] = 0x55 ;
		ra = psf_fread (ba, nd_bytes, nd_cnt, a) ;
		rb = psf_fread (bb, nd_bytes, nd_cnt, b) ;
		VASSERT (ra == rb && ra == nd_cnt, "read returns the same item count on both routes") ;
		for (k = 0 ; k < PX_MAXIO + 2 ; k++)
			VASSERT (ba [k] == bb [k], "read delivers the same bytes on both routes and writes nothing past the request") ;
		VASSERT (psf_ftell (a) == psf_ftell (b), "tell agrees after the read") ;
		VASSERT (px.bad_fd_use == 0, "no descriptor other than the one supplied is touched") ;
	}
#elif defined (SEL_OWNERSHIP)
	{	int nd_keep = nondet_int () ;
		int nd_vio = nondet_int () ;
		int nd_rsrc = nondet_int () ;
		int rc ;
		/* descriptors APP_A, APP_B belong to the application (never given to the library), FDN = the sound file (3, or 0: a process
		** whose stdin was closed gets descriptor 0 from open ()), 4 = resource fork */
		px.fd [APP_A].open = px.fd [APP_B].open = 1 ;
		px.fd [FDN].open = 1 ;
		px.len = 8 ;
		psf_init_files (a) ;
		VASSUME (nd_vio == 0 || nd_vio == 1) ;
		VASSUME (nd_keep == 0 || nd_keep == 1) ;
		a->virtual_io = nd_vio ;
		if (! nd_vio)
		{	psf_set_file (a, FDN) ;
			a->file.do_not_close_descriptor = nd_keep ;
			} ;
		if (nd_rsrc == 1)
		{	px.fd [4].open = 1 ;
			a->rsrc.filedes = 4 ;
			/* sd2_open () closes the resource fork once it has parsed it ... */
			psf_close_rsrc (a) ;
			/* ... and the OS may hand the same number to the application again */
			px.fd [4].open = 1 ;
			px.fd [4].closed_by_lib = 0 ;
			} ;
		/* what psf_close () does */
		rc = psf_fclose (a) ;
		psf_close_rsrc (a) ;
		VASSERT (px.fd [APP_A].open && px.fd [APP_B].open, "descriptors the library never received stay open") ;
		if (nd_rsrc == 1)
			VASSERT (px.fd [4].open, "a descriptor number the library already closed is never closed again") ;
		if (nd_vio)
			VASSERT (px.fd [FDN].open && px.fd [FDN].closed_by_lib == 0 && px.fd [APP_A].closed_by_lib == 0 && px.fd [APP_B].closed_by_lib == 0, "virtual I/O: no descriptor is closed at all") ;
		else if (nd_keep)
			VASSERT (px.fd [FDN].open, "close_desc = 0: the caller's descriptor stays open") ;
		else
			VASSERT (! px.fd [FDN].open && px.fd [FDN].closed_by_lib == 1, "close_desc = 1: the descriptor is closed exactly once") ;
		VASSERT (px.bad_close == 0, "close is never called on a descriptor that is not open") ;
		VASSERT (rc == 0, "psf_fclose returns 0 when the underlying close succeeds") ;
		VASSERT (a->file.filedes == -1 && a->rsrc.filedes == -1, "handle forgets its descriptors") ;
	}
#elif defined (SEL_RW)
	/* C15 H5 / contract of the I/O shim used by every other harness (E-memfile): counts, positions, EINTR retry */
	{	int nd_len = nondet_int () ;
		int nd_pos = nondet_int () ;
		int nd_bytes = nondet_int () ;
		int nd_cnt = nondet_int () ;
		unsigned char buf [PX_MAXIO + 2] ;
		sf_count_t r, avail ;
		VASSUME (nd_len >= 0 && nd_len <= 32 && nd_pos >= 0 && nd_pos <= 40) ;
		px.len = nd_len ;
		px.fd [3].open = 1 ;
		px.fd [3].pos = nd_pos ;
		a->file.filedes = 3 ;
		a->file.mode = SFM_RDWR ;
		VASSUME (nd_bytes >= 1 && nd_bytes <= 4 && nd_cnt >= 0 && nd_cnt <= PX_MAXIO && nd_cnt * nd_bytes <= PX_MAXIO) ;
		for (k = 0 ; k < PX_MAXIO + 2 ; k++) buf [k] = 0x55 ;
		r = psf_fread (buf, nd_bytes, nd_cnt, a) ;
		avail = nd_pos < nd_len ? nd_len - nd_pos : 0 ;
#ifndef PX_FAULTY
		VASSERT (r == (avail < (sf_count_t) nd_cnt * nd_bytes ? avail : (sf_count_t) nd_cnt * nd_bytes) / nd_bytes, "psf_fread = E-memfile contract: min (request, bytes left) / bytes, EINTR retried") ;
#endif
		VASSERT (r >= 0 && r <= nd_cnt, "psf_fread count in range") ;
		VASSERT (psf_ftell (a) >= nd_pos + r * nd_bytes, "position advanced by at least the items reported") ;
		for (k = 0 ; k < PX_MAXIO + 2 ; k++)
			if (k >= nd_cnt * nd_bytes)
				VASSERT (buf [k] == 0x55, "psf_fread writes nothing past the request") ;
		r = psf_fwrite (buf, nd_bytes, nd_cnt, a) ;
		VASSERT (r >= 0 && r <= nd_cnt, "psf_fwrite count in range") ;
		VASSERT (psf_get_filelen (a) >= nd_len, "writing never shrinks the file") ;
	}
#else
#error "select"
#endif
	WITNESS_END () ;
	return 0 ;
}
