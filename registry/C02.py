from vf import H

HARNESSES = []
_cfgs = [(1, 0, 0, "sc"), (1, 0, 1, "uc"), (2, 0, 0, "les"), (2, 1, 0, "bes"), (3, 0, 0, "let"), (3, 1, 0, "bet"), (4, 0, 0, "lei"), (4, 1, 0, "bei")]
_fn = ["pcm_init", "pcm_read_%s2{s,i,f,d}", "pcm_write_{s,i,f,d}2%s", "%s2{s,i,f,d}_array", "{s,i}2%s_array", "{f,d}2%s_array", "{f,d}2%s_clip_array"]
for bw, be, u8, pfx in _cfgs:
    base = {"BW": bw, "BE": be, "U8": u8, "PFX": pfx, "MF_CAP": 16, "MF_MAXIO": 8, "LIBSNDFILE_VERIF_BUFFER_LEN": 48}
    fns = [f % pfx if "%s" in f else f for f in _fn]
    for sel in ("SEL_RD", "SEL_WR_INT"):
        d = dict(base); d.update({sel: 1, "COUNT": 2})
        HARNESSES.append(H("pcm_conv.%s.%s" % (pfx, sel[4:]), "C02/pcm_conv.c", defines=d,
                           unwind=10, unwindset=["psf_fread.0:9", "psf_fwrite.0:9"], checks="mem",
                           include_env=("log_stub", "memfile"), timeout=300, functions=fns,
                           bounds="2 samples per call (kernels are per-sample loops); all file byte / sample values; norm flags symbolic"))
    for sel in ("SEL_WR_F", "SEL_WR_D"):
        for norm in (0, 1):
            for clip in (0, 1):
                d = dict(base); d.update({sel: 1, "COUNT": 1, "NORM": norm, "CLIP": clip})
                # double x constant multiply is the expensive part: thorough only for the 53-bit cases that take minutes
                hard = (sel == "SEL_WR_D" and norm == 1 and clip == 0 and bw >= 3)	# 53-bit x 23/31-bit constant multiply
                HARNESSES.append(H("pcm_conv.%s.%s.norm%d.clip%d" % (pfx, sel[4:], norm, clip), "C02/pcm_conv.c", defines=d,
                                   unwind=10, unwindset=["psf_fread.0:9", "psf_fwrite.0:9"], checks="mem",
                                   tiers=("thorough",) if hard else ("quick", "thorough"),
                                   include_env=("log_stub", "memfile"), timeout=3000 if hard else 400, functions=fns, solver="kissat" if hard else "cadical",
                                   bounds="1 sample; every finite float/double value (non-clipping: those whose scaled value fits an int)"))

# float32.c / double64.c conversion kernels (one element, scale on the grid)
def fconv_harnesses():
    out = []
    table = [("double64.c", 1, ["d2s", "d2s_clip", "d2i", "d2i_clip", "d2f", "s2d", "i2d", "f2d"]),
             ("float32.c", 0, ["f2s", "f2s_clip", "f2i", "f2i_clip", "f2d", "s2f", "i2f", "d2f"])]
    for cfile, isd, fns in table:
        for fn in fns:
            if fn in ("d2f", "f2d"):
                scales = [("1", "1.0")]
            elif fn.startswith(("s2", "i2")):
                scales = [("1", "1.0"), ("inv", "(1.0 / 32768.0)" if fn.startswith("s2") else "(1.0 / 2147483648.0)")]
            elif "2s" in fn:
                scales = [("1", "1.0"), ("n", "32767.0")]
            else:
                scales = [("1", "1.0"), ("n", "2147483647.0")]
            for stag, sexpr in scales:
                d = {"FCONV_FILE": '"%s"' % cfile, "FN_" + fn: 1, "SCALE": sexpr, "MF_CAP": 16}
                if isd: d["IS_DOUBLE"] = 1
                heavy = stag == "n" and isd
                out.append(H("fconv.%s.%s.scale%s" % (cfile[:-2], fn, stag), "C02/fconv.c", link=["common"], stubs=["psf_log_printf"], defines=d, unwind=4, checks="assert",
                             solver="cadical", include_env=("log_stub", "memfile"), timeout=600, functions=[fn + "_array"], bounds="one element, every finite value (non-clipping variants: scaled value within the target range), scale = %s" % sexpr))
    return out
HARNESSES += fconv_harnesses()
def fwrap_harnesses():
    out = []
    for cfile, init, fmt, ft, nd, pfx in (("double64.c", "double64_init", "(SF_FORMAT_WAV|SF_FORMAT_DOUBLE)", "double", "nondet_double", "d"),
                                          ("float32.c", "float32_init", "(SF_FORMAT_WAV|SF_FORMAT_FLOAT)", "float", "nondet_float", "f")):
        for sel in ("SEL_WR_INT", "SEL_WR_SHORT", "SEL_RD_INT", "SEL_RD_SHORT"):
            d = {sel: 1, "CODEC_FILE": '"%s"' % cfile, "CODEC_INIT": init, "FMT": fmt, "FT": ft, "ND_FT": nd, "MF_CAP": 16, "MF_MAXIO": 16, "LIBSNDFILE_VERIF_BUFFER_LEN": 32,
                 "X2I": pfx + "2i_array", "X2I_CLIP": pfx + "2i_clip_array", "X2S": pfx + "2s_array", "X2S_CLIP": pfx + "2s_clip_array"}
            out.append(H("fwrap.%s.%s" % (cfile[:-2], sel[4:].lower()), "C02/fwrap.c", link=["common"], stubs=["psf_log_printf", "psf_memset"], defines=d, unwind=6,
                         unwindset=["psf_fread.0:17", "psf_fwrite.0:17", "psf_memset.0:65"], checks="mem", solver="cadical",
                         include_env=("log_stub", "memfile", "memset_model", "libm_model"), timeout=900,
                         tiers=("thorough",) if (cfile == "double64.c" and sel == "SEL_RD_SHORT") else ("quick", "thorough"),
                         functions=[init, "host_read_%s2i/s" % pfx, "host_write_i/s2%s" % pfx], bounds="one item, every int/short value resp. stored values within +-1e9, scale/clip flags symbolic, file maximum 1.0"))
    return out
HARNESSES += fwrap_harnesses()

META = {"assumptions": ["float->int without clipping is only checked where lrint(x*scale) fits an int (C conversion otherwise unspecified)",
                        "NaN/Inf inputs excluded", "goto-cc build uses lrint/lrintf (not the SSE2 intrinsics)"],
        "outside": ["real-arithmetic nearest-integer oracle (IEEE product rounding is part of the oracle)"]}
