/* E-libc: contract model of snprintf (CBMC's built-in model writes nothing).
 * Writes at most `size` bytes, NUL-terminates iff size >= 1, returns the
 * untruncated length. For the formats "%s" and "%.4s" the argument string is copied; any
 * other format yields nondet printable bytes of nondet length < SNP_MAX (a literal format of <= 8 characters without '%' is copied as is).
 * Loops are bounded by SNP_MAX (harness bound on the produced text). */
#if defined (__CPROVER__) || defined (VERIF_CBMC)	/* native replay uses the real function */
#include <stdarg.h>
#include <stddef.h>
#include "verif.h"
#ifndef SNP_MAX
#define SNP_MAX 24
#endif
/* a format of at most 8 characters without any '%' is copied literally (unrolled: no loop, no unwinding bound) */
static int
snp_short_literal (const char *f)
{
#define SNP_STEP(k)	if (f [k] == 0) return 1 ; if (f [k] == '%') return 0 ;
	SNP_STEP (0) SNP_STEP (1) SNP_STEP (2) SNP_STEP (3) SNP_STEP (4) SNP_STEP (5) SNP_STEP (6) SNP_STEP (7) SNP_STEP (8)
#undef SNP_STEP
	return 0 ;
}

int
snprintf (char *str, size_t size, const char *fmt, ...)
{	va_list ap ;
	size_t n = 0, i ;
	const char *src = NULL ;
	va_start (ap, fmt) ;
	size_t prec = SNP_MAX ;
	if (fmt [0] == '%' && fmt [1] == 's' && fmt [2] == 0)
		src = va_arg (ap, const char *) ;
	else if (fmt [0] == '%' && fmt [1] == '.' && fmt [2] == '4' && fmt [3] == 's' && fmt [4] == 0)
	{	src = va_arg (ap, const char *) ;
		prec = 4 ;
		}
	else if (snp_short_literal (fmt))
		src = fmt ;
	va_end (ap) ;
	if (src != NULL)
	{	for (n = 0 ; n < SNP_MAX ; n++)
			if (n >= prec || src [n] == 0)
				break ;
		VASSERT (n < SNP_MAX, "snprintf model: source text shorter than SNP_MAX (harness bound)") ;
		}
	else
	{	unsigned char nd_fmtlen = nondet_uchar () ;
		n = nd_fmtlen % SNP_MAX ;
		} ;
	if (size > 0)
	{	VASSERT (V_W_OK (str, size < n + 1 ? size : n + 1), "snprintf: destination writable for min (size, len + 1) bytes") ;
		for (i = 0 ; i < SNP_MAX ; i++)
		{	if (i >= n || i >= size - 1)
				break ;
			str [i] = src ? src [i] : 'x' ;
			} ;
		str [i] = 0 ;
		} ;
	return (int) n ;
}
#endif
