/* verif.h - dual-mode harness support.
 *
 *  CBMC mode (__CPROVER__ defined by goto-cc): nondet_T() are undefined
 *  functions = fresh symbolic values; VASSERT/VASSUME are solver obligations.
 *
 *  REPLAY mode (gcc/clang + sanitizers): nondet_T() pop the values the solver
 *  chose from a replay file (order-exact); VASSERT prints and exits 77;
 *  VASSUME failing means the replay desynchronised (exit 79).
 *
 *  Rule for harness authors: every nondet_T() result is assigned to a scalar
 *  variable or array element whose base name starts with "nd_" and that is
 *  never assigned otherwise. run_check.py extracts exactly those assignments,
 *  in trace order, from the CBMC counterexample.
 */
#ifndef VERIF_H
#define VERIF_H

#include <stdint.h>
#include <stddef.h>

#if defined (__CPROVER__) || defined (VERIF_CBMC)
int            nondet_int (void) ;
unsigned       nondet_uint (void) ;
short          nondet_short (void) ;
unsigned short nondet_ushort (void) ;
signed char    nondet_schar (void) ;
unsigned char  nondet_uchar (void) ;
int64_t        nondet_i64 (void) ;
uint64_t       nondet_u64 (void) ;
float          nondet_float (void) ;
double         nondet_double (void) ;
/* fill an array whose name starts with nd_ with fresh symbolic values */
#define ND_FILL_(arr, n, T)	do { int nd_i_ ; for (nd_i_ = 0 ; nd_i_ < (int) (n) ; nd_i_ ++) (arr) [nd_i_] = nondet_ ## T () ; } while (0)
#define ND_FILL(arr, n, T)	ND_FILL_ (arr, n, T)	/* (T may itself be a macro) */
#else
/* REPLAY: values are looked up by source position (scalars: one nondet_T () per source
** line, FIFO per line) or by element name (ND_FILL), so values the solver sliced away
** (irrelevant to the counterexample) simply read as 0 and nothing desynchronises. */
uint64_t vf_nd (const char *file, int line, int width) ;
uint64_t vf_nd_elem (const char *name, int idx, int width) ;
float    vf_bits2f (uint64_t b) ;
double   vf_bits2d (uint64_t b) ;
#define nondet_int()	((int) (uint32_t) vf_nd (__FILE__, __LINE__, 32))
#define nondet_uint()	((unsigned) vf_nd (__FILE__, __LINE__, 32))
#define nondet_short()	((short) (uint16_t) vf_nd (__FILE__, __LINE__, 16))
#define nondet_ushort()	((unsigned short) vf_nd (__FILE__, __LINE__, 16))
#define nondet_schar()	((signed char) (uint8_t) vf_nd (__FILE__, __LINE__, 8))
#define nondet_uchar()	((unsigned char) vf_nd (__FILE__, __LINE__, 8))
#define nondet_i64()	((int64_t) vf_nd (__FILE__, __LINE__, 64))
#define nondet_u64()	((uint64_t) vf_nd (__FILE__, __LINE__, 64))
#define nondet_float()	(vf_bits2f (vf_nd (__FILE__, __LINE__, 32)))
#define nondet_double()	(vf_bits2d (vf_nd (__FILE__, __LINE__, 64)))
#define VF_CONV_int(b)		((int) (uint32_t) (b))
#define VF_CONV_uint(b)		((unsigned) (b))
#define VF_CONV_short(b)	((short) (uint16_t) (b))
#define VF_CONV_ushort(b)	((unsigned short) (b))
#define VF_CONV_schar(b)	((signed char) (uint8_t) (b))
#define VF_CONV_uchar(b)	((unsigned char) (b))
#define VF_CONV_i64(b)		((int64_t) (b))
#define VF_CONV_u64(b)		((uint64_t) (b))
#define VF_CONV_float(b)	(vf_bits2f (b))
#define VF_CONV_double(b)	(vf_bits2d (b))
#define ND_FILL_(arr, n, T)	do { int nd_i_ ; for (nd_i_ = 0 ; nd_i_ < (int) (n) ; nd_i_ ++) (arr) [nd_i_] = VF_CONV_ ## T (vf_nd_elem (#arr, nd_i_, (int) (8 * sizeof ((arr) [0])))) ; } while (0)
#define ND_FILL(arr, n, T)	ND_FILL_ (arr, n, T)
#endif

#if defined (__CPROVER__) || defined (VERIF_CBMC)

#ifdef WITNESS_ONLY	/* twin build: only the vacuity witness is left (expensive harnesses check it in a separate, cheap query) */
#define VASSERT(c, msg)		((void) 0)
#else
#define VASSERT(c, msg)		__CPROVER_assert ((c), msg)
#endif
#define VASSUME(c)		__CPROVER_assume (c)
#define V_W_OK(p, n)		__CPROVER_w_ok ((p), (n))
#define V_R_OK(p, n)		__CPROVER_r_ok ((p), (n))
#define V_CBMC			1
#define V_OBJSIZE(p)		__CPROVER_OBJECT_SIZE (p)

#else

#include <stdio.h>
#include <stdlib.h>
void vf_fail (const char *msg, const char *file, int line) ;
void vf_assume_fail (const char *cond, const char *file, int line) ;
#define VASSERT(c, msg)		do { if (! (c)) vf_fail (msg, __FILE__, __LINE__) ; } while (0)
#define VASSUME(c)		do { if (! (c)) vf_assume_fail (#c, __FILE__, __LINE__) ; } while (0)
#define V_W_OK(p, n)		1
#define V_R_OK(p, n)		1
#define V_CBMC			0
#include <malloc.h>
#define V_OBJSIZE(p)		malloc_usable_size ((void *) (p))	/* exact under ASan */
#define __CPROVER_assert(c, msg)	VASSERT (c, msg)
#define __CPROVER_assume(c)		VASSUME (c)

#endif

/* Vacuity witness: the last statement of every harness. It must come back
 * FAILED from the solver (reachable); run_check.py treats a harness whose
 * witness is unreachable as broken machinery. Compiled out in replay. */
#if (defined (__CPROVER__) || defined (VERIF_CBMC)) && ! defined (NO_WITNESS)
#define WITNESS_END()		__CPROVER_assert (0, "WITNESS end of harness reachable")
#else
#define WITNESS_END()		do { } while (0)
#endif

#endif
