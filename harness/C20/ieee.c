/* C20 H3: the portable IEEE-754 serialisers (src/float32.c: float32_{le,be}_{read,write},
 * src/double64.c: double64_{le,be}_{read,write}) against the native
 * representation. Exponent field on the grid (EXP: biased exponent of a
 * NORMAL number, including both ends of the range), sign and every mantissa
 * bit symbolic:
 *   read  (bytes of x)  == x
 *   write (x)           == the bytes of x
 * in both byte orders. libm: exact models of frexp / pow (2, n) / fmod (x, 1)
 * (env/libm_model.c).
 */
#include "verif.h"
#include <string.h>
#include <stdint.h>
#include IEEE_FILE

int
main (void)
{
#ifdef IS_DOUBLE
	uint64_t nd_mant = nondet_u64 () ;
	int nd_sign = nondet_int () ;
	union { double d ; uint64_t u ; unsigned char b [8] ; } v ;
	unsigned char le [8], be [8], out [8] ;
	int k ;
	VASSUME (nd_sign == 0 || nd_sign == 1) ;
	v.u = (nd_mant & 0x000FFFFFFFFFFFFFULL) | (((uint64_t) EXP) << 52) | (((uint64_t) nd_sign) << 63) ;
	for (k = 0 ; k < 8 ; k++) { le [k] = (unsigned char) (v.u >> (8 * k)) ; be [7 - k] = le [k] ; } ;
#if defined (SEL_READ)
	VASSERT (double64_le_read (le) == v.d, "double64_le_read: the little-endian bytes of x read back as x") ;
	VASSERT (double64_be_read (be) == v.d, "double64_be_read: the big-endian bytes of x read back as x") ;
#else
	double64_le_write (v.d, out) ;
	for (k = 0 ; k < 8 ; k++) VASSERT (out [k] == le [k], "double64_le_write: produces the little-endian bytes of x") ;
	double64_be_write (v.d, out) ;
	for (k = 0 ; k < 8 ; k++) VASSERT (out [k] == be [k], "double64_be_write: produces the big-endian bytes of x") ;
#endif
#else
	uint32_t nd_mant = nondet_uint () ;
	int nd_sign = nondet_int () ;
	union { float f ; uint32_t u ; } v ;
	unsigned char le [4], be [4], out [4] ;
	int k ;
	VASSUME (nd_sign == 0 || nd_sign == 1) ;
	v.u = (nd_mant & 0x007FFFFFu) | (((uint32_t) EXP) << 23) | (((uint32_t) nd_sign) << 31) ;
	for (k = 0 ; k < 4 ; k++) { le [k] = (unsigned char) (v.u >> (8 * k)) ; be [3 - k] = le [k] ; } ;
#if defined (SEL_READ)
	VASSERT (float32_le_read (le) == v.f, "float32_le_read: the little-endian bytes of x read back as x") ;
	VASSERT (float32_be_read (be) == v.f, "float32_be_read: the big-endian bytes of x read back as x") ;
#else
	float32_le_write (v.f, out) ;
	for (k = 0 ; k < 4 ; k++) VASSERT (out [k] == le [k], "float32_le_write: produces the little-endian bytes of x") ;
	float32_be_write (v.f, out) ;
	for (k = 0 ; k < 4 ; k++) VASSERT (out [k] == be [k], "float32_be_write: produces the big-endian bytes of x") ;
#endif
#endif
	WITNESS_END () ;
	return 0 ;
}
