/* C20 H4: IMA ADPCM (WAV block layout) and Microsoft ADPCM block decoders vs
 * independent reference decoders (env/ref_adpcm.h), ALL block bytes symbolic
 * (header: any predictor / step index / delta / predictor number incl.
 * invalid ones, data: any nibbles). Codec state is built as typed objects
 * (R9); geometry is the minimal legal block of the configuration.
 */
#include "verif.h"
#include <stdlib.h>
#include <string.h>
#include CODEC_FILE
#include "memfile.h"
#include "ref_adpcm.h"

static SF_PRIVATE g_psf ;

int
main (void)
{	SF_PRIVATE *psf = &g_psf ;
	unsigned char nd_blk [BLOCKSIZE] ;
	int k, ch ;

	ND_FILL (nd_blk, BLOCKSIZE, uchar) ;
#ifdef BPRED
	/* predictor number on the grid (0..6 valid, 7.. invalid): the coefficient pair is then a constant and the
	** predictor is sample x constant instead of sample x table[symbolic] (symbolic x symbolic multiply: no verdict) */
	for (k = 0 ; k < CH ; k++) nd_blk [k] = BPRED ;
#endif
	for (k = 0 ; k < BLOCKSIZE ; k++) mf [0].data [k] = nd_blk [k] ;
	mf [0].len = BLOCKSIZE ; mf [0].pos = 0 ;
	psf->file.filedes = 0 ;
	psf->sf.channels = CH ;

#if defined (SEL_IMA_WAV)
	{	static IMA_ADPCM_PRIVATE ima ;
		static short samples [SPB * CH] ;
		static unsigned char block [BLOCKSIZE] ;
		REF_IMA_STATE rs [2] ;
		short ref [SPB * CH] ;
		int bi, grp ;
		ima.channels = CH ; ima.blocksize = BLOCKSIZE ; ima.samplesperblock = SPB ; ima.blocks = 1 ;
		ima.samples = samples ; ima.block = block ;
		wavlike_ima_decode_block (psf, &ima) ;
		/* reference: per channel 4-byte header (predictor lo, hi, step index, reserved), then groups of 4 bytes per
		** channel, low nibble first, 8 samples per group */
		for (ch = 0 ; ch < CH ; ch++)
		{	int p = nd_blk [ch * 4] | (nd_blk [ch * 4 + 1] << 8) ;
			if (p & 0x8000) p -= 0x10000 ;
			rs [ch].predictor = p ;
			rs [ch].index = ref_ima_clamp_index (nd_blk [ch * 4 + 2]) ;
			ref [ch] = (short) p ;
			} ;
		bi = 4 * CH ;
		for (grp = 0 ; grp < (SPB - 1) / 8 ; grp++)
			for (ch = 0 ; ch < CH ; ch++)
				for (k = 0 ; k < 4 ; k++)
				{	int byte = nd_blk [bi ++] ;
					ref [(1 + grp * 8 + 2 * k) * CH + ch] = (short) ref_ima_step (&rs [ch], byte & 15) ;
					ref [(1 + grp * 8 + 2 * k + 1) * CH + ch] = (short) ref_ima_step (&rs [ch], byte >> 4) ;
					} ;
		for (k = 0 ; k < SPB * CH ; k++)
			VASSERT (samples [k] == ref [k], "IMA ADPCM (WAV layout): decoded sample == reference decoder") ;
		VASSERT (ima.blockcount == 1 && ima.samplecount == 0, "K-block: blockcount bumped, samplecount reset") ;
	}
#elif defined (SEL_MS)
	{	static MSADPCM_PRIVATE ms ;
		static short samples [SPB * CH] ;
		static unsigned char block [BLOCKSIZE] ;
		REF_MS_STATE rs [2] ;
		short ref [SPB * CH] ;
		int bi, si ;
		ms.channels = CH ; ms.blocksize = BLOCKSIZE ; ms.samplesperblock = SPB ; ms.blocks = 1 ;
		ms.samples = samples ; ms.block = block ;
		msadpcm_decode_block (psf, &ms) ;
		/* reference: header = predictor numbers, deltas, newest samples, older samples (per channel each);
		** an out-of-range predictor number is treated as 0 (libsndfile's documented recovery) */
		for (ch = 0 ; ch < CH ; ch++)
		{	int bp = nd_blk [ch] ;
			int d = nd_blk [CH + 2 * ch] | (nd_blk [CH + 2 * ch + 1] << 8) ;
			int s1 = nd_blk [3 * CH + 2 * ch] | (nd_blk [3 * CH + 2 * ch + 1] << 8) ;
			int s2 = nd_blk [5 * CH + 2 * ch] | (nd_blk [5 * CH + 2 * ch + 1] << 8) ;
			rs [ch].pred = bp >= 7 ? 0 : bp ;
			rs [ch].delta = (short) d ;
			rs [ch].s1 = (short) s1 ;
			rs [ch].s2 = (short) s2 ;
			ref [ch] = (short) s2 ;
			ref [CH + ch] = (short) s1 ;
			} ;
		bi = 7 * CH ;
		si = 2 * CH ;
		while (bi < BLOCKSIZE)
		{	int byte = nd_blk [bi ++] ;
			ref [si] = (short) ref_ms_step (&rs [si % CH], byte >> 4) ; si ++ ;
			ref [si] = (short) ref_ms_step (&rs [si % CH], byte & 15) ; si ++ ;
			} ;
		for (k = 0 ; k < SPB * CH ; k++)
			VASSERT (samples [k] == ref [k], "MS ADPCM: decoded sample == reference decoder") ;
	}
#else
#error "select"
#endif
	WITNESS_END () ;
	return 0 ;
}
