/* C04 H1-H2 (+ C10 H1/H3, C11 H1): container header round trip, one
 * container per query: real X_open (WRITE: writes the header) -> "N frames
 * accepted" -> [SFC_UPDATE_HEADER_NOW path | container close] -> real X_open
 * (READ) on the bytes produced, over E-memfile whose audio-data region is
 * abstract (MF_ABSTRACT). The handle state psf_open_file prepares is
 * reproduced by preopen.h; its post-open gate is applied with the real
 * validate_sfinfo / validate_psf.
 *
 * Grid: CONTAINER_FILE/OPEN_FN/FMT (container | encoding | endian), CH.
 * Symbolic: sample rate, N (frames the write calls accepted), the caller's
 * stale SF_INFO.frames.
 */
#include "verif.h"
#include <stdlib.h>
#include <string.h>
#include "sndfile.c"
#include CONTAINER_FILE
#include "memfile.h"
#include "preopen.h"

#ifndef BLOCKLEN
#define BLOCKLEN 1		/* frames per codec block (1 = sample granular) */
#endif
/* Header caches are static arrays (field-sensitive: the bytes the parser reads back stay constants, R8)
** large enough for the container's whole header, so psf_bump_header_allocation (realloc) is not
** exercised here; it has its own harness (C03 L0). */
#define HDRLEN	(MF_CAP + 64)

static SF_PRIVATE g_w, g_r ;
static unsigned char g_hw [HDRLEN], g_hr [HDRLEN] ;

int
main (void)
{	SF_INFO wi, ri ;
	SF_PRIVATE *w = &g_w, *r = &g_r ;
	int nd_sr = nondet_int () ;
	sf_count_t nd_n = nondet_i64 () ;
	sf_count_t nd_stale = nondet_i64 () ;
	int rc ;
#ifdef SR_FIXED
	nd_sr = SR_FIXED ;	/* sample rate on the grid (WAV-family 'fmt ' parser keeps its fields in a union: one symbolic
				** member makes the encoding field non-constant for the symbolic executor) */
#endif
	VASSUME (nd_sr >= 1) ;
#ifdef SR_MAX
	VASSUME (nd_sr <= SR_MAX) ;
#endif
#if defined (KF_aiffrate) && defined (IS_AIFF)
	VASSUME (nd_sr < (1 << 30)) ;		/* known finding excluded (known_findings.txt) */
#endif
#ifdef PROBE_aiffrate
	VASSUME (nd_sr >= (1 << 30)) ;
#endif
#ifdef N_FIXED
	nd_n = N_FIXED ;	/* frame count on the grid: the parsers then walk a structurally concrete file (R2/R8) */
#else
	VASSUME (nd_n >= N_MIN && nd_n <= N_MAX) ;
#endif

	/* ---- write side */
	memset (&wi, 0, sizeof (wi)) ;
	wi.samplerate = nd_sr ;
	wi.channels = CH ;
	wi.format = FMT ;
	wi.frames = nd_stale ;		/* stale/wrong caller value must not matter */
	VASSERT (sf_format_check (&wi) == 1, "grid configuration is one sf_format_check accepts") ;
	mf [0].len = 0 ; mf [0].pos = 0 ;
	verif_pre_open (w, &wi, SFM_WRITE, 0, g_hw, HDRLEN) ;
	rc = OPEN_FN (w) ;
	VASSERT (rc == 0, "accepted by sf_format_check => the container opens for writing") ;
	VASSERT (w->write_short != NULL && w->write_int != NULL && w->write_float != NULL && w->write_double != NULL, "accepted format installs all four write entry points") ;
	VASSERT (w->dataoffset > 0 && w->dataoffset <= MF_CAP && mf [0].len == w->dataoffset, "header written, audio data starts right after it") ;
	VASSERT (w->blockwidth == (sf_count_t) w->bytewidth * CH, "blockwidth = bytewidth * channels") ;
	VASSERT (validate_sfinfo (&w->sf) && validate_psf (w), "write handle passes psf_open_file's gate") ;

	/* ---- "the write calls accepted N frames": the state the wrappers + a sample-granular codec leave behind */
	w->read_current = 0 ;
	w->have_written = nd_n > 0 ? SF_TRUE : SF_FALSE ;
	w->write_current = nd_n ;
	w->sf.frames = nd_n ;
	w->last_op = SFM_WRITE ;
	mf [0].len = w->dataoffset + nd_n * w->blockwidth ;
	mf [0].len_min = w->dataoffset ;		/* concrete: the header is there whatever N is */
	mf [0].pos = mf [0].len ;
#ifdef UPDATE_NOW
	/* C11: crash point = the instant the header update returns */
	VASSERT (w->write_header != NULL, "container has a rewritable header") ;
	rc = w->write_header (w, SF_TRUE) ;
	VASSERT (mf [0].pos == w->dataoffset + nd_n * w->blockwidth, "header update restores the file position") ;
	VASSERT (mf [0].len == w->dataoffset + nd_n * w->blockwidth, "header update does not change the file length") ;
#else
#ifndef DBG_NO_CLOSE
	if (w->codec_close) rc = w->codec_close (w) ;
	if (w->container_close) rc = w->container_close (w) ;
#endif
#ifdef DBG_NO_READ
	WITNESS_END () ;
	return 0 ;
#endif
#endif

	/* ---- read side: independent parse of the bytes produced */
	memset (&ri, 0, sizeof (ri)) ;
	mf [0].pos = 0 ;
	mf [0].len_min = w->dataoffset ;
	verif_pre_open (r, &ri, SFM_READ, 0, g_hr, HDRLEN) ;
	r->sf.format = FMT & SF_FORMAT_TYPEMASK ;	/* what guess_file_type yields for this container (checked in C03) */
	rc = OPEN_FN (r) ;
	VASSERT (rc == 0, "the produced file opens for reading") ;
	VASSERT (validate_sfinfo (&r->sf) && validate_psf (r), "read handle passes psf_open_file's gate") ;
	VASSERT (r->sf.channels == CH, "channel count survives") ;
	VASSERT ((r->sf.format & SF_FORMAT_TYPEMASK) == (FMT & SF_FORMAT_TYPEMASK), "container survives") ;
	VASSERT ((r->sf.format & SF_FORMAT_SUBMASK) == (FMT & SF_FORMAT_SUBMASK), "encoding survives") ;
#ifdef EXACT_RATE
	VASSERT (r->sf.samplerate == nd_sr, "sample rate survives exactly") ;
#endif
#if defined (KF_vocupd) && defined (UPDATE_NOW) && defined (IS_VOC_U8)
	/* known finding excluded (known_findings.txt): VOC 8-bit header update counts the not-yet-written terminator byte */
	(void) 0 ;	/* no frame-count claim for this configuration */
#else
	VASSERT (r->sf.frames >= nd_n && r->sf.frames < nd_n + BLOCKLEN + PADFRAMES, "N <= frames < N + block length (+ documented pad frame)") ;
#endif
	VASSERT (r->dataoffset == w->dataoffset, "reader finds the audio data where the writer put it") ;
	VASSERT (r->read_short != NULL && r->read_int != NULL && r->read_float != NULL && r->read_double != NULL, "reader installs all four read entry points") ;
	WITNESS_END () ;
	return 0 ;
}
