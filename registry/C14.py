from vf import H

HARNESSES = []
_c = dict(link=["common"], stubs=["psf_log_printf"], include_env=("log_stub", "posix_model", "snprintf_model"), timeout=300, checks="mem")
_fn = ["psf_fread", "psf_fwrite", "psf_fseek", "psf_ftell", "psf_get_filelen", "psf_fclose", "psf_close_rsrc", "psf_close_fd", "psf_init_files", "psf_set_file"]
HARNESSES.append(H("fileio.routes", "C14/fileio.c", defines={"SEL_ROUTES": 1, "PX_CAP": 48, "PX_MAXIO": 16, "SNP_MAX": 40}, unwind=50,
                   unwindset=["psf_fread.0:9", "psf_fwrite.0:9", "psf_close_fd.0:4", "snprintf.0:41", "snprintf.1:41"], functions=_fn,
                   bounds="embedding offset k <= 8, embedded length <= 24, trailing junk <= 8, symbolic file bytes, any seek target inside the sub-file, read <= 16 bytes; EINTR up to 2 times in a row per call", **_c))
HARNESSES.append(H("fileio.ownership", "C14/fileio.c", defines={"SEL_OWNERSHIP": 1, "PX_CAP": 48, "PX_MAXIO": 16, "SNP_MAX": 40}, unwind=50,
                   unwindset=["psf_close_fd.0:4", "snprintf.0:41", "snprintf.1:41"], functions=_fn,
                   bounds="route in {descriptor close_desc 0/1, virtual I/O}, with/without a resource-fork descriptor that was closed earlier and re-issued by the OS", **_c))
HARNESSES.append(H("fileio.ownership.fd0", "C14/fileio.c", defines={"SEL_OWNERSHIP": 1, "FDN": 0, "PX_CAP": 48, "PX_MAXIO": 16, "SNP_MAX": 40}, unwind=50,
                   unwindset=["psf_close_fd.0:4", "snprintf.0:41", "snprintf.1:41"], functions=_fn,
                   bounds="as fileio.ownership with the sound file on descriptor number 0", **_c))
HARNESSES.append(H("fileio.rw", "C14/fileio.c", defines={"SEL_RW": 1, "PX_CAP": 48, "PX_MAXIO": 16, "SNP_MAX": 40}, unwind=50,
                   unwindset=["psf_fread.0:9", "psf_fwrite.0:9", "snprintf.0:41", "snprintf.1:41"], functions=_fn,
                   bounds="file <= 32 bytes, any position <= 40, request <= 16 bytes, EINTR up to 2 in a row", **_c))
for sel in ("SEL_VIRTUAL", "SEL_FD"):
    HARNESSES.append(H("open_entry." + sel[4:].lower(), "C14/open_entry.c", link=["common"], stubs=["psf_log_printf", "psf_memset"],
                       defines={sel: 1, "MF_CAP": 16, "SNP_MAX": 100, "PSF_MEMSET_MAX": 64}, unwind=8,
                       unwindset=["snprintf.0:101", "snprintf.1:101", "psf_memset.0:65", "strlen.0:110", "psf_rand_int32.0:34"], checks="mem",
                       include_env=("log_stub", "memfile", "memset_model", "snprintf_model", "clock_model"), timeout=300,
                       functions=["sf_open_virtual" if sel == "SEL_VIRTUAL" else "sf_open_fd", "psf_allocate", "psf_init_files", "psf_set_file"],
                       bounds="mode symbolic, callback set complete or missing any one callback / close_desc symbolic, SD2 or not"))

# (file, K, D, TAIL, CH, rate): the embedded file's geometry is on the grid (every branch of the open gate on it folds: the handle's
# function pointers stay constants, R1/R5); data bytes, junk bytes are symbolic; one configuration keeps the rate symbolic.
EMB = [("au", 20, 0, 0, 1, 8000), ("au", 20, 2, 0, 1, 8000), ("au", 20, 3, 0, 1, 8000), ("au", 20, 4, 0, 1, None), ("au", 20, 4, 3, 1, 8000),
       ("au", 20, 8, 0, 2, 8000), ("au", 20, 8, 2, 2, 44100), ("au", 20, 5, 1, 2, 8000), ("au", 24, 4, 0, 1, 8000), ("au", 40, 6, 4, 1, 8000),
       ("au", 1, 8, 4, 1, 8000), ("au", 4, 2, 0, 1, 8000),
       ("wav", 20, 0, 0, 1, 8000), ("wav", 20, 4, 0, 1, 8000), ("wav", 20, 3, 0, 1, 8000), ("wav", 1, 8, 3, 2, 44100), ("wav", 7, 6, 0, 1, 22050)]
for ftag, k, d, tail, ch, sr in EMB:
    probe = False
    dd = {"K": k, "DMAX": 8, "D_FIXED": d, "TAIL_FIXED": tail, "CH_FIXED": ch, "PX_CAP": 112, "PX_MAXIO": 64, "PX_EINTR_MAX": 0, "SNP_MAX": 40, "PSF_MEMSET_MAX": 64,
          "LIBSNDFILE_VERIF_BUFFER_LEN": 64}
    if sr is not None: dd["SR_FIXED"] = sr
    if ftag == "wav": dd["FILE_WAV"] = 1; dd["DATA0_FIXED"] = 0x12 if d != 6 else 0x77
    if probe: dd["PROBE_embedshort"] = 1
    HARNESSES.append(H("embed_open.%s.k%d.d%d.t%d.ch%d.sr%s%s" % (ftag, k, d, tail, ch, sr if sr is not None else "sym", ".probe_embedshort" if probe else ""), "C14/embed_open.c",
                       link=["common", "file_io", "pcm", "ulaw", "alaw", "float32", "double64"] + (["au"] if ftag == "au" else ["wav", "wavlike", "chunk", "strings", "broadcast", "cart", "id3", "chanmap", "audio_detect", "command"]),
                       stubs=["psf_log_printf", "psf_memset"], defines=dd,
                       unwind=10, unwindset=["snprintf.0:41", "snprintf.1:41", "psf_memset.0:65", "strlen.0:70", "psf_binheader_readf.0:20", "psf_binheader_readf.1:40", "psf_rand_int32.0:34",
                                             "v_read.0:65", "read.0:65", "sf_error_number.0:230"] + ["main.%d:45" % i for i in range(12)], checks="mem", fsa=128,
                       include_env=("log_stub", "posix_model", "memset_model", "snprintf_model", "clock_model"), timeout=300,
                       functions=["psf_open_file", "guess_file_type", "au_open/au_read_header" if ftag == "au" else "wav_open/wav_read_header/wavlike_read_fmt_chunk", "pcm_init",
                                  "psf_fread/psf_fseek/psf_ftell/psf_get_filelen (real file_io.c)", "sf_readf_short", "sf_seek"],
                       bounds="%s/PCM16 file embedded at offset %d: %d data bytes, %d channel(s), rate %s, %d trailing junk bytes (grid); data and junk bytes symbolic%s; header states the exact data size" % (
                           ftag.upper(), k, d, ch, sr if sr is not None else "symbolic", tail, " (first four data bytes fixed: the parser branches on wvpk/OggS there)" if ftag == "wav" else "")))

META = {"assumptions": ["E-posix model of read/write/lseek/fstat/close"], "outside": ["the kernel's real behaviour; parsers/codecs only use these primitives (structural argument)", "pipe route: see DESIGN"]}
