/* C16 H2/H3/H4: the real psf_close (src/sndfile.c) on a heap handle that owns an
 * ARBITRARY subset of the allocations the library attaches to a handle
 * (container/codec private data, peak, cues, instrument, loop info, bext,
 * cart, channel map, strings, read/write chunk tables with payloads,
 * iterator, interleave/dither buffers, format description, header cache),
 * with or without container/codec close hooks. CBMC --memory-leak-check: no
 * block survives; the descriptor is closed exactly once; the return value is
 * the underlying close result.
 */
#include "verif.h"
#include <stdlib.h>
#include <string.h>
#include "sndfile.c"
#include "memfile.h"

static int g_codec_closed, g_cont_closed ;
static int hook_codec (SF_PRIVATE *psf) { (void) psf ; g_codec_closed ++ ; return 0 ; }
static int hook_cont (SF_PRIVATE *psf) { (void) psf ; g_cont_closed ++ ; return 0 ; }

#define OWN(bit, field, size)	do { if (nd_mask & (1u << (bit))) { psf->field = malloc (size) ; VASSUME (psf->field != NULL) ; } else psf->field = NULL ; } while (0)

int
main (void)
{	SF_PRIVATE *psf ;
	unsigned nd_mask = nondet_uint () ;
	unsigned nd_nw = nondet_uint () ;
	int rc ;
	unsigned k ;

	psf = malloc (sizeof (SF_PRIVATE)) ;
	VASSUME (psf != NULL) ;
	psf->virtual_io = SF_FALSE ;
	psf->file.filedes = 0 ;
	psf->file.do_not_close_descriptor = 0 ;
	psf->rsrc.filedes = -1 ;
	psf->codec_close = (nd_mask & (1u << 30)) ? hook_codec : NULL ;
	psf->container_close = (nd_mask & (1u << 31)) ? hook_cont : NULL ;
	OWN (0, header.ptr, 256) ;
	OWN (1, container_data, 16) ;
	OWN (2, codec_data, 16) ;
	OWN (3, interleave, 16) ;
	OWN (4, dither, 16) ;
	OWN (5, peak_info, sizeof (PEAK_INFO) + 2 * sizeof (PEAK_POS)) ;
	OWN (6, broadcast_16k, 64) ;
	OWN (7, loop_info, sizeof (SF_LOOP_INFO)) ;
	OWN (8, instrument, sizeof (SF_INSTRUMENT)) ;
	OWN (9, cues, 64) ;
	OWN (10, channel_map, 8) ;
	OWN (11, format_desc, 8) ;
	OWN (12, strings.storage, 32) ;
	OWN (13, rchunks.chunks, 2 * sizeof (READ_CHUNK)) ;
	OWN (14, iterator, sizeof (SF_CHUNK_ITERATOR)) ;
	OWN (15, cart_16k, 64) ;
	VASSUME (nd_nw <= 2) ;
	if (nd_mask & (1u << 16))
	{	psf->wchunks.chunks = malloc (2 * sizeof (WRITE_CHUNK)) ;
		VASSUME (psf->wchunks.chunks != NULL) ;
		psf->wchunks.count = 2 ;
		psf->wchunks.used = nd_nw ;
		for (k = 0 ; k < 2 ; k++)
		{	psf->wchunks.chunks [k].data = (k < nd_nw) ? malloc (8) : NULL ;
			VASSUME (k >= nd_nw || psf->wchunks.chunks [k].data != NULL) ;
			} ;
		}
	else
	{	psf->wchunks.chunks = NULL ;
		psf->wchunks.count = psf->wchunks.used = 0 ;
		} ;
	mf [0].n_close = 0 ;
	g_codec_closed = g_cont_closed = 0 ;

	rc = psf_close (psf) ;

	VASSERT (rc == 0, "sf_close returns 0 when the underlying close succeeds") ;
	VASSERT (mf [0].n_close == 1, "the descriptor is closed exactly once") ;
	VASSERT (g_codec_closed == ((nd_mask & (1u << 30)) ? 1 : 0) && g_cont_closed == ((nd_mask & (1u << 31)) ? 1 : 0), "close hooks run exactly once each") ;
	WITNESS_END () ;
	return 0 ;
}
