/* L3: sample-granular codecs (pcm.c, float32.c, double64.c, ulaw.c, alaw.c):
 * the real X_init + psf->read_T / psf->write_T with their BUF_UNION staging
 * loops over E-memfile. The staging buffer is shrunk with the
 * LIBSNDFILE_VERIF_BUFFER_LEN hook so that requests cross several staging
 * boundaries inside the bound.
 *   SEL_RD : K-codec-read (count, bounds, position, short data) [C05 H2] and
 *            partition independence: one call == two calls split at j  [C06]
 *   SEL_WR : K-codec-write [C05 H2], split independence of the file bytes
 *            [C07 H1], and write->read round trip == identity       [C01 H1/H2]
 * Grid: CODEC_FILE/CODEC_INIT/FMT/BW/BE (configuration), T (API type).
 * Symbolic: request length, split point, file length (incl. truncated
 * mid-sample), file bytes / samples, start position.
 */
#include "verif.h"
#include <stdlib.h>
#include <string.h>
#include CODEC_FILE
#include "memfile.h"

#define CAT_(a, b)	a ## b
#define CAT(a, b)	CAT_ (a, b)
#define RD(p)		CAT ((p)->read_, TN)
#define WR(p)		CAT ((p)->write_, TN)
#ifndef LMAX
#define LMAX		7		/* items per request */
#endif
#define GUARD		2
#define SENT		((T) 85)

static SF_PRIVATE g_psf [2] ;
#ifdef CODEC_DATA_TYPE
static CODEC_DATA_TYPE g_cd [2] ;	/* typed codec state (R9): what X_open allocates with calloc */
static const CODEC_DATA_TYPE g_cd_zero ;
#endif

static void
setup (SF_PRIVATE *psf, int fd)
{	int rc ;
	memset (psf, 0, sizeof (*psf)) ;
	psf->file.filedes = fd ;
	psf->file.mode = SFM_RDWR ;
	psf->sf.channels = 1 ;
	psf->sf.format = FMT ;
	psf->bytewidth = BW ;
	psf->endian = BE ? SF_ENDIAN_BIG : SF_ENDIAN_LITTLE ;
	psf->norm_float = SF_TRUE ;
	psf->norm_double = SF_TRUE ;
	psf->dataoffset = 0 ;
	psf->filelength = mf [fd].len ;
#ifdef CODEC_DATA_TYPE
	g_cd [fd] = g_cd_zero ;
	psf->codec_data = &g_cd [fd] ;
#endif
	rc = CODEC_INIT (psf) ;
	VASSERT (rc == 0, "codec init accepts the configuration") ;
	VASSERT (RD (psf) != NULL && WR (psf) != NULL, "codec installs read and write entry points") ;
	VASSERT (psf->blockwidth == BW && psf->bytewidth == BW, "codec sets blockwidth/bytewidth") ;
}

int
main (void)
{	SF_PRIVATE *a = &g_psf [0], *b = &g_psf [1] ;
	int nd_len = nondet_int () ;
	int nd_j = nondet_int () ;
	int k ;

	VASSUME (nd_len >= 1 && nd_len <= LMAX) ;
	VASSUME (nd_j >= 0 && nd_j <= nd_len) ;

#if defined (SEL_RD)
	{	unsigned char nd_file [MF_CAP] ;
		int nd_flen = nondet_int () ;
		int nd_pos = nondet_int () ;
		T oa [LMAX + GUARD], ob [LMAX + GUARD] ;
		sf_count_t ra, rb1, rb2, avail ;

		ND_FILL (nd_file, MF_CAP, uchar) ;
		VASSUME (nd_flen >= 0 && nd_flen <= MF_CAP) ;		/* any length, incl. cut in the middle of a sample */
		VASSUME (nd_pos >= 0 && nd_pos * BW <= nd_flen && nd_pos <= 2) ;
		for (k = 0 ; k < MF_CAP ; k++)
		{	mf [0].data [k] = nd_file [k] ;
			mf [1].data [k] = nd_file [k] ;
			} ;
		mf [0].len = mf [1].len = nd_flen ;
		setup (a, 0) ;
		setup (b, 1) ;
		mf [0].pos = mf [1].pos = nd_pos * BW ;
		for (k = 0 ; k < LMAX + GUARD ; k++) oa [k] = ob [k] = SENT ;
		avail = (nd_flen - nd_pos * BW) / BW ;

		ra = RD (a) (a, oa, nd_len) ;
		VASSERT (ra == (avail < nd_len ? avail : nd_len), "K-codec-read: returns min (len, whole samples left) - short only at end of data") ;
		VASSERT (mf [0].pos >= nd_pos * BW + ra * BW && mf [0].pos <= nd_pos * BW + ra * BW + BW - 1, "file position advances by the items returned (plus at most a partial trailing sample)") ;
		for (k = 0 ; k < LMAX + GUARD ; k++)
			if (k >= nd_len)
				VASSERT (oa [k] == SENT, "K-codec-read: nothing written outside [ptr, ptr+len)") ;

		rb1 = (nd_j > 0) ? RD (b) (b, ob, nd_j) : 0 ;
		rb2 = (nd_len - nd_j > 0 && rb1 == nd_j) ? RD (b) (b, ob + nd_j, nd_len - nd_j) : 0 ;
		VASSERT (rb1 + rb2 == ra, "partition independence: same number of items in two calls as in one") ;
		for (k = 0 ; k < LMAX ; k++)
			if (k < ra)
				VASSERT (oa [k] == ob [k] || (oa [k] != oa [k] && ob [k] != ob [k]), "partition independence: same sample values in two calls as in one") ;
	}
#elif defined (SEL_WR)
	{	T nd_in [LMAX + GUARD] ;
		T back [LMAX + GUARD] ;
		sf_count_t wa, wb1, wb2, r ;

		ND_FILL (nd_in, LMAX + GUARD, NDT) ;
#if IS_FLOAT_T
		for (k = 0 ; k < LMAX + GUARD ; k++)
			VASSUME (nd_in [k] == nd_in [k] && nd_in [k] > (T) -1e9 && nd_in [k] < (T) 1e9) ;
#if defined (IS_G711) && defined (KF_g711range)
		for (k = 0 ; k < LMAX + GUARD ; k++)
			VASSUME (nd_in [k] >= (T) -1.0 && nd_in [k] <= (T) 1.0) ;	/* known finding excluded (known_findings.txt) */
#endif
#if defined (PROBE_g711range)
		VASSUME (nd_in [0] > (T) 1.5 || nd_in [0] < (T) -1.5) ;
#endif
#endif
		mf [0].len = mf [1].len = 0 ;
		setup (a, 0) ;
		setup (b, 1) ;
		mf [0].pos = mf [1].pos = 0 ;

		wa = WR (a) (a, nd_in, nd_len) ;
		VASSERT (wa == nd_len, "K-codec-write: accepts the whole request") ;
		VASSERT (mf [0].len == (sf_count_t) nd_len * BW && mf [0].pos == mf [0].len, "file grows by len * bytewidth, position at end") ;

		wb1 = (nd_j > 0) ? WR (b) (b, nd_in, nd_j) : 0 ;
		wb2 = (nd_len - nd_j > 0) ? WR (b) (b, nd_in + nd_j, nd_len - nd_j) : 0 ;
		VASSERT (wb1 + wb2 == nd_len, "split write accepts everything") ;
		VASSERT (mf [1].len == mf [0].len, "split independence: same file length") ;
		for (k = 0 ; k < LMAX * BW ; k++)
			if (k < nd_len * BW)
				VASSERT (mf [1].data [k] == mf [0].data [k], "split independence: identical file bytes however the samples are split over calls") ;
#if LOSSLESS
		/* C01: read back with the same type */
		a->filelength = mf [0].len ;
		mf [0].pos = 0 ;
#ifdef CODEC_DATA_TYPE
		g_cd [0] = g_cd_zero ;		/* a fresh open starts from the codec's initial state */
#endif
		for (k = 0 ; k < LMAX + GUARD ; k++) back [k] = SENT ;
		r = RD (a) (a, back, nd_len) ;
		VASSERT (r == nd_len, "round trip: all items come back") ;
		for (k = 0 ; k < LMAX ; k++)
			if (k < nd_len)
				VASSERT (back [k] == (T) (RT_MASK (nd_in [k])), "round trip: bit-identical samples (low bits zeroed for narrower files)") ;
#else
		(void) back ; (void) r ;
#endif
	}
#elif defined (SEL_FAULT)
	/* C15 H2: every psf_fread / psf_fwrite / psf_fseek may transfer fewer bytes or fail (MF_FAULTY:
	** one nondet choice per I/O call = every fault schedule). Contained = count in range and never
	** more than the I/O layer really delivered/accepted, nothing outside the buffers, loops terminate. */
	{	unsigned char nd_file [MF_CAP] ;
		T out [LMAX + GUARD] ;
		T nd_in [LMAX + GUARD] ;
		sf_count_t r, w, p0 ;
		ND_FILL (nd_file, MF_CAP, uchar) ;
		ND_FILL (nd_in, LMAX + GUARD, NDT) ;
#if IS_FLOAT_T
		for (k = 0 ; k < LMAX + GUARD ; k++)
			VASSUME (nd_in [k] == nd_in [k] && nd_in [k] > (T) -1e9 && nd_in [k] < (T) 1e9) ;
#if defined (IS_G711) && defined (KF_g711range)
		for (k = 0 ; k < LMAX + GUARD ; k++)
			VASSUME (nd_in [k] >= (T) -1.0 && nd_in [k] <= (T) 1.0) ;	/* known finding excluded (known_findings.txt) */
#endif
#if defined (PROBE_g711range)
		VASSUME (nd_in [0] > (T) 1.5 || nd_in [0] < (T) -1.5) ;
#endif
#endif
		for (k = 0 ; k < MF_CAP ; k++) mf [0].data [k] = nd_file [k] ;
		mf [0].len = MF_CAP ;
		setup (a, 0) ;
		mf [0].pos = 0 ;
		for (k = 0 ; k < LMAX + GUARD ; k++) out [k] = SENT ;
		p0 = mf [0].pos ;
		r = RD (a) (a, out, nd_len) ;
		VASSERT (r >= 0 && r <= nd_len, "read under I/O faults: 0 <= r <= len") ;
		VASSERT (r * BW <= mf [0].pos - p0, "read under I/O faults: never reports more items than the I/O layer delivered") ;
		for (k = 0 ; k < LMAX + GUARD ; k++)
			if (k >= nd_len)
				VASSERT (out [k] == SENT, "read under I/O faults: nothing written outside [ptr, ptr+len)") ;
		mf [0].pos = 0 ; mf [0].len = 0 ;
		p0 = 0 ;
		w = WR (a) (a, nd_in, nd_len) ;
		VASSERT (w >= 0 && w <= nd_len, "write under I/O faults: 0 <= w <= len") ;
		VASSERT (w * BW <= mf [0].pos - p0, "write under I/O faults: never reports more items than the I/O layer accepted") ;
		(void) b ; (void) nd_j ;
	}
#else
#error "select"
#endif
	WITNESS_END () ;
	return 0 ;
}
