/* Reference ADPCM decoders written from the published algorithms
 * (IMA/DVI ADPCM: IMA Digital Audio Focus and Technical Working Groups,
 *  "Recommended Practices ... 3.0", 1992; Microsoft ADPCM: Microsoft
 *  Multimedia Standards Update, "New Multimedia Data Types and Data
 *  Techniques", 1994). Independent of src/ima_adpcm.c and src/ms_adpcm.c. */
#ifndef REF_ADPCM_H
#define REF_ADPCM_H
static const int ref_ima_index_table [16] = { -1, -1, -1, -1, 2, 4, 6, 8, -1, -1, -1, -1, 2, 4, 6, 8 } ;
static const int ref_ima_step_table [89] =
{	7, 8, 9, 10, 11, 12, 13, 14, 16, 17, 19, 21, 23, 25, 28, 31, 34, 37, 41, 45, 50, 55, 60, 66, 73, 80, 88, 97, 107, 118,
	130, 143, 157, 173, 190, 209, 230, 253, 279, 307, 337, 371, 408, 449, 494, 544, 598, 658, 724, 796, 876, 963, 1060,
	1166, 1282, 1411, 1552, 1707, 1878, 2066, 2272, 2499, 2749, 3024, 3327, 3660, 4026, 4428, 4871, 5358, 5894, 6484,
	7132, 7845, 8630, 9493, 10442, 11487, 12635, 13899, 15289, 16818, 18500, 20350, 22385, 24623, 27086, 29794, 32767
} ;

typedef struct { int predictor ; int index ; } REF_IMA_STATE ;

static inline int
ref_ima_clamp_index (int i)
{	return i < 0 ? 0 : (i > 88 ? 88 : i) ;
}

/* one decoder step: 4-bit code -> 16-bit sample */
static inline int
ref_ima_step (REF_IMA_STATE *s, int code)
{	int step = ref_ima_step_table [s->index] ;
	int diff = step >> 3 ;
	if (code & 4) diff += step ;
	if (code & 2) diff += step >> 1 ;
	if (code & 1) diff += step >> 2 ;
	if (code & 8) s->predictor -= diff ; else s->predictor += diff ;
	if (s->predictor > 32767) s->predictor = 32767 ;
	if (s->predictor < -32768) s->predictor = -32768 ;
	s->index = ref_ima_clamp_index (s->index + ref_ima_index_table [code & 15]) ;
	return s->predictor ;
}

static const int ref_ms_adapt [16] = { 230, 230, 230, 230, 307, 409, 512, 614, 768, 614, 512, 409, 307, 230, 230, 230 } ;
static const int ref_ms_coef1 [7] = { 256, 512, 0, 192, 240, 460, 392 } ;
static const int ref_ms_coef2 [7] = { 0, -256, 0, 64, 0, -208, -232 } ;

typedef struct { int pred ; int delta ; int s1, s2 ; } REF_MS_STATE ;	/* s1 = newest sample, s2 = the one before */

static inline int
ref_ms_step (REF_MS_STATE *s, int nibble)
{	int sn = (nibble & 8) ? nibble - 16 : nibble ;
	int predict = (s->s1 * ref_ms_coef1 [s->pred] + s->s2 * ref_ms_coef2 [s->pred]) >> 8 ;
	int cur = predict + sn * s->delta ;
	if (cur > 32767) cur = 32767 ;
	if (cur < -32768) cur = -32768 ;
	s->delta = (short) ((ref_ms_adapt [nibble & 15] * s->delta) >> 8) ;	/* iDelta is a 16-bit field */
	if (s->delta < 16) s->delta = 16 ;
	s->s2 = s->s1 ;
	s->s1 = cur ;
	return cur ;
}
#endif
