from vf import H

# (command, DMAX = sizeof(arg)+8, is_query)
_CMDS = [
 ("SFC_GET_LIB_VERSION", 24, 1), ("SFC_GET_LOG_INFO", 24, 1), ("SFC_GET_CURRENT_SF_INFO", 40, 1), ("SFC_GET_NORM_DOUBLE", 16, 1),
 ("SFC_GET_NORM_FLOAT", 16, 1), ("SFC_SET_NORM_DOUBLE", 16, 0), ("SFC_SET_NORM_FLOAT", 16, 0), 
 ("SFC_SET_SCALE_INT_FLOAT_WRITE", 16, 0), ("SFC_GET_SIMPLE_FORMAT_COUNT", 12, 1), ("SFC_GET_SIMPLE_FORMAT", 32, 1),
 ("SFC_GET_FORMAT_INFO", 32, 1), ("SFC_GET_FORMAT_MAJOR_COUNT", 12, 1), ("SFC_GET_FORMAT_MAJOR", 32, 1),
 ("SFC_GET_FORMAT_SUBTYPE_COUNT", 12, 1), ("SFC_GET_FORMAT_SUBTYPE", 32, 1),
 ("SFC_GET_SIGNAL_MAX", 16, 1), ("SFC_GET_MAX_ALL_CHANNELS", 24, 1), ("SFC_SET_ADD_PEAK_CHUNK", 16, 0), ("SFC_UPDATE_HEADER_NOW", 16, 0),
 ("SFC_SET_UPDATE_HEADER_AUTO", 16, 0), ("SFC_SET_RAW_START_OFFSET", 16, 0),
 ("SFC_SET_DITHER_ON_WRITE", 40, 0), ("SFC_SET_DITHER_ON_READ", 40, 0), ("SFC_GET_DITHER_INFO_COUNT", 16, 1), ("SFC_GET_DITHER_INFO", 40, 1),
 ("SFC_GET_EMBED_FILE_INFO", 24, 1), ("SFC_SET_CLIPPING", 16, 0), ("SFC_GET_CLIPPING", 16, 1), ("SFC_GET_CUE_COUNT", 12, 1),
 ("SFC_GET_CUE", 600, 1), ("SFC_SET_CUE", 600, 0), ("SFC_GET_INSTRUMENT", 240, 1), ("SFC_SET_INSTRUMENT", 240, 0), ("SFC_GET_LOOP_INFO", 56, 1),
 ("SFC_GET_BROADCAST_INFO", 900, 1), ("SFC_GET_CHANNEL_MAP_INFO", 16, 1), ("SFC_SET_CHANNEL_MAP_INFO", 16, 0),
 ("SFC_RAW_DATA_NEEDS_ENDSWAP", 16, 1), ("SFC_WAVEX_SET_AMBISONIC", 16, 0), ("SFC_WAVEX_GET_AMBISONIC", 16, 1),
 ("SFC_SET_VBR_ENCODING_QUALITY", 16, 0), ("SFC_SET_COMPRESSION_LEVEL", 16, 0), ("SFC_SET_OGG_PAGE_LATENCY_MS", 16, 0),
 ("SFC_SET_OGG_PAGE_LATENCY", 16, 0), ("SFC_GET_OGG_STREAM_SERIALNO", 16, 1), ("SFC_GET_BITRATE_MODE", 16, 1), ("SFC_SET_BITRATE_MODE", 16, 0),
 ("SFC_GET_CART_INFO", 2100, 1), ("SFC_SET_ORIGINAL_SAMPLERATE", 16, 0), ("SFC_GET_ORIGINAL_SAMPLERATE", 16, 1),
 ("SFC_SET_ADD_HEADER_PAD_CHUNK", 16, 0), ("SFC_SET_ADD_DITHER_ON_WRITE", 16, 0), ("SFC_SET_ADD_DITHER_ON_READ", 16, 0),
 ("0x7777", 16, 0),
]
HARNESSES = []
for cmd, dmax, q in _CMDS:
    HARNESSES.append(H("cmd." + cmd, "L4/cmd.c", link=["common", "command", "broadcast", "cart", "dither", "float32", "double64", "strings", "chunk", "id3"],
                       stubs=["psf_log_printf", "psf_memset"], defines={"CMD": cmd, "DMAX": dmax, "QUERY": q, "CH": 2, "FR_MAX": 3, "MF_CAP": 16, "LIBSNDFILE_VERIF_BUFFER_LEN": 64, "PSF_MEMSET_MAX": 64, "PSF_MEMSET_ELEM": "double", "SNP_MAX": 24},
                       unwind=40, unwindset=["psf_memset.0:65", "snprintf.0:25", "snprintf.1:25", "main.3:%d" % (dmax + 1), "psf_calc_signal_max.0:4", "psf_calc_signal_max.1:10",
                                  "psf_calc_max_all_channels.0:4", "psf_calc_max_all_channels.1:10", "stub_read_double.0:10"], checks="mem",
                       include_env=("log_stub", "memfile", "memset_model", "snprintf_model"), timeout=300, kf=["cmdstr0"],
                       functions=["sf_command"], bounds="datasize in [0, %d]; data NULL or exact-size heap block; handle NULL or arbitrary I_open state; metadata presence mask symbolic" % dmax))

for sel, refused in (("SEL_BEXT", 1), ("SEL_CART", 1), ("SEL_BEXT", 0), ("SEL_CART", 0)):
    HARNESSES.append(H("metaset." + sel[4:].lower() + (".refused" if refused else ".any"), "C17/meta_set.c", tiers=("thorough",), link=["common", "command", "broadcast", "cart", "dither", "float32", "double64", "strings", "chunk", "id3"],
                       stubs=["psf_log_printf", "psf_memset"], defines=dict({sel: 1, "FR_MAX": 3, "MF_CAP": 16, "PSF_MEMSET_MAX": 64, "SNP_MAX": 300, "MEMCPY_MAX": 2200}, **({"ONLY_REFUSED": 1} if refused else {})),
                       unwind=40, unwindset=["psf_memset.0:65", "snprintf.0:301", "snprintf.1:301", "strlen.0:400", "psf_strlcpy_crlf.0:300", "psf_strlcat.0:300", "memcpy.0:2201", "memset.0:2201"],
                       checks="mem", include_env=("log_stub", "memfile", "memset_model", "snprintf_model", "clock_model"), timeout=600 if refused else 3000,
                       functions=["sf_command(SFC_SET_BROADCAST_INFO/SFC_SET_CART_INFO)", "broadcast_var_set", "cart_var_set"],
                       bounds="datasize = fixed part + 0..8 bytes (symbolic), length field any 32-bit value"))

for sel in ("SEL_BEXT_SHORT", "SEL_BEXT_BIG", "SEL_CART_SHORT", "SEL_CART_BIG"):
    HARNESSES.append(H("metarefuse." + sel[4:].lower(), "C17/meta_refuse.c", link=["common", "broadcast", "cart"], stubs=["psf_log_printf"], defines={sel: 1, "MF_CAP": 16, "SNP_MAX": 300, "MEMCPY_MAX": 16},
                       unwind=4, unwindset=["snprintf.0:301", "snprintf.1:301", "strlen.0:300", "psf_strlcpy_crlf.0:300", "psf_strlcat.0:300"], checks="mem",
                       include_env=("log_stub", "memfile", "snprintf_model", "clock_model"), timeout=200,
                       functions=["broadcast_var_set", "cart_var_set"], bounds="the two refusal conditions (length field > block with datasize = fixed part; block >= the 16K record), handle mode symbolic"))
# the scanning commands (SFC_CALC_*) have their own harness family (L4/calc.c), shared with C18
import importlib.util, os
_spec = importlib.util.spec_from_file_location("reg_C18_for_C17", os.path.join(os.path.dirname(os.path.abspath(__file__)), "C18.py"))
_m = importlib.util.module_from_spec(_spec); _spec.loader.exec_module(_m)
HARNESSES += [h for h in _m.calc_harnesses() if ".ch3" not in h.name]

META = {"assumptions": ["I_open", "snprintf contract model (env/snprintf_model.c)"], "outside": []}
