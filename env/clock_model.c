/* E-clock: gettimeofday / time return an arbitrary instant (only in the CBMC build). */
#if defined (__CPROVER__) || defined (VERIF_CBMC)
#include <sys/time.h>
#include <time.h>
#include "verif.h"
int
gettimeofday (struct timeval *tv, void *tz)
{	int64_t nd_sec = nondet_i64 () ;
	int64_t nd_usec = nondet_i64 () ;
	(void) tz ;
	VASSUME (nd_sec >= 0 && nd_usec >= 0 && nd_usec < 1000000) ;
	if (tv) { tv->tv_sec = nd_sec ; tv->tv_usec = nd_usec ; } ;
	return 0 ;
}
time_t
time (time_t *t)
{	int64_t nd_now = nondet_i64 () ;
	VASSUME (nd_now >= 0) ;
	if (t) *t = (time_t) nd_now ;
	return (time_t) nd_now ;
}
#endif
