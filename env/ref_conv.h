/* Reference conversion rules (docs/api.md "Note 1/2", properties C01/C02),
 * parametrised by file width/endianness/signedness instead of copied per
 * routine. Independent of pcm.c.  */
#ifndef REF_CONV_H
#define REF_CONV_H
#include <stdint.h>
#include <math.h>

/* w-byte file sample at p -> sign-extended value of width 8w */
static inline int32_t
ref_file_value (const unsigned char *p, int w, int big_endian, int unsigned8)
{	uint32_t u = 0 ;
	int k ;
	if (w == 1)
		return unsigned8 ? (int32_t) p [0] - 128 : (int32_t) (signed char) p [0] ;
	for (k = 0 ; k < w ; k++)
		u |= ((uint32_t) p [big_endian ? w - 1 - k : k]) << (8 * k) ;
	/* sign extend from 8w bits */
	if (w < 4 && (u & (1u << (8 * w - 1))))
		u |= ~((1u << (8 * w)) - 1) ;
	return (int32_t) u ;
}

/* value of width 8w -> the w file bytes */
static inline void
ref_file_bytes (int32_t v, int w, int big_endian, int unsigned8, unsigned char *out)
{	int k ;
	if (w == 1)
	{	out [0] = unsigned8 ? (unsigned char) (v + 128) : (unsigned char) v ;
		return ;
		} ;
	for (k = 0 ; k < w ; k++)
		out [big_endian ? w - 1 - k : k] = (unsigned char) (((uint32_t) v) >> (8 * k)) ;
}

/* MSB-aligned 32-bit view of a w-byte value ("most significant bits are kept") */
static inline int32_t ref_msb32 (int32_t v, int w)	{ return (int32_t) (((uint32_t) v) << (32 - 8 * w)) ; }
/* narrowing an MSB-aligned 32-bit word to w bytes truncates */
static inline int32_t ref_top (int32_t x, int w)	{ return x >> (32 - 8 * w) ; }

static inline int64_t ref_imax (int w)	{ return (((int64_t) 1) << (8 * w - 1)) - 1 ; }
static inline int64_t ref_imin (int w)	{ return - (((int64_t) 1) << (8 * w - 1)) ; }

static inline int64_t
ref_clamp (int64_t v, int w)
{	if (v > ref_imax (w)) return ref_imax (w) ;
	if (v < ref_imin (w)) return ref_imin (w) ;
	return v ;
}
#endif
