from vf import H

HARNESSES = []
_c = dict(link=["common"], stubs=["psf_log_printf"], include_env=("log_stub", "memfile", "snprintf_model"), timeout=300, checks="mem")
def table_harnesses():
    return [
        H("tables.index", "C10/tables.c", defines={"SEL_INDEX": 1, "SNP_MAX": 90}, unwind=40,
          functions=["psf_get_format_simple", "psf_get_format_major", "psf_get_format_subtype", "psf_get_format_info", "sf_format_check", "sf_command"],
          bounds="all int index pairs (i, j) into the three enumeration tables incl. out of range", **_c),
        H("tables.usable", "C10/tables.c", defines={"SEL_USABLE": 1, "SNP_MAX": 90}, unwind=40,
          functions=["sf_format_check", "major_formats[]", "subtype_formats[]"], bounds="symbolic major index x all subtypes x channels {1,2}", **_c),
        H("tables.checkdom", "C10/tables.c", defines={"SEL_CHECKDOM": 1, "SNP_MAX": 90}, unwind=4,
          functions=["sf_format_check"], bounds="every 32-bit format word, channel count and sample rate", **_c),
    ]
HARNESSES += table_harnesses()
import importlib.util, os
def _load(n):
    spec = importlib.util.spec_from_file_location("reg_%s_x" % n, os.path.join(os.path.dirname(os.path.abspath(__file__)), n + ".py"))
    m = importlib.util.module_from_spec(spec); spec.loader.exec_module(m); return m
# H1/H3: accepted by sf_format_check => the container opens for writing with all four writers and re-opens as the same
# container and encoding (asserted inside the C04 round-trip harnesses); one configuration per container here
HARNESSES += [h for h in _load("C04").rt_harnesses() if ".ch1.n1" in h.name and h.probe_for is None and (".sr" not in h.name or ".sr44100" in h.name)]

META = {"assumptions": [], "outside": ["accepted => the container's open really succeeds and writes (H1): see DESIGN, registered separately when built"]}
