/* C05 / C06 / C07: the STAGING WRAPPERS of the block codecs that decode /
 * encode whole blocks of 16-bit samples (IMA ADPCM, MS ADPCM, GSM 06.10,
 * G.72x, NMS ADPCM): X_read_{s,i,f,d} + X_read_block and
 * X_write_{s,i,f,d} + X_write_block (src/ima_adpcm.c, ms_adpcm.c, gsm610.c,
 * g72x.c, nms_adpcm.c), from a point INSIDE a block (SC frames consumed /
 * staged; request length and SC on the grid so that the block coder itself
 * - checked elsewhere or outside the claim - is provably not reached).
 *   SEL_READ   L items into an EXACT-SIZE heap block: nothing is written
 *              outside out[0, L) (CBMC pointer checks); item j is the decoded
 *              sample (SC * channels + j) converted for the caller's type;
 *              the position advances by L / channels; L is returned.
 *   SEL_WRITE  L items from an exact-size heap block: nothing outside
 *              in[0, L) is read; item j is staged at (SC * channels + j) in
 *              the codec's 16-bit domain; position and return value as above.
 * The BUF_UNION staging buffer is 4 shorts (hook), so the request spans two
 * staging chunks.
 */
#include "verif.h"
#include <stdlib.h>
#include <string.h>
#include CODEC_FILE
#include "memfile.h"

#ifndef LEN
#define LEN 6
#endif
#ifndef SC
#define SC 5
#endif
#ifndef CH
#define CH 1
#endif

#define CAT3_(a, b, c)	a ## b ## c
#define CAT3(a, b, c)	CAT3_ (a, b, c)

static int stub_block_called ;
static sf_count_t g_coder_pos = -1 ;	/* file position when the (stubbed) block decoder was last called */

#if defined (CODEC_IMA)
typedef IMA_ADPCM_PRIVATE PRIV_T ;
#define PFX ima_
static int stub_coder (SF_PRIVATE *psf, IMA_ADPCM_PRIVATE *p) { (void) p ; stub_block_called ++ ; g_coder_pos = psf_ftell (psf) ; return 1 ; }
static short g_samples [64 * CH + 8] ;
static unsigned char g_block [64] ;
#define SETUP(p)	do { (p)->channels = CH ; (p)->samplesperblock = 64 ; (p)->blocks = 4 ; (p)->blockcount = 1 ; (p)->samplecount = SC ; (p)->samples = g_samples ; \
				(p)->block = g_block ; (p)->decode_block = stub_coder ; (p)->encode_block = stub_coder ; } while (0)
#define POS(p)		((p)->samplecount)
#define SAMPLES(p)	((p)->samples)
#define WNORM		(1.0 * 0x7FFF)
#define SEEK_SPB	64
#ifdef AIFF_LAYOUT
#define SEEK_FN		aiff_ima_seek
#define SEEK_BLOCK_BYTES	(34 * CH)	/* one 34-byte packet per channel */
#define SEEK_SETUP(p, nb)	do { (p)->blocksize = 34 ; (p)->blocks = (nb) * CH ; (p)->blockcount = 3 ; } while (0)
#else
#define SEEK_FN		wavlike_ima_seek
#define SEEK_BLOCK_BYTES	(36 * CH)
#define SEEK_SETUP(p, nb)	do { (p)->blocksize = 36 * CH ; (p)->blocks = (nb) ; (p)->blockcount = 3 ; } while (0)
#endif
#elif defined (CODEC_MS)
typedef MSADPCM_PRIVATE PRIV_T ;
#define PFX msadpcm_
static short g_samples [64 * CH + 8] ;
static unsigned char g_block [64] ;
#define SETUP(p)	do { (p)->channels = CH ; (p)->samplesperblock = 64 ; (p)->blocks = 4 ; (p)->blockcount = 1 ; (p)->samplecount = SC ; (p)->samples = g_samples ; (p)->block = g_block ; } while (0)
#define POS(p)		((p)->samplecount)
#define SAMPLES(p)	((p)->samples)
#define WNORM		(1.0 * 0x7FFF)
#elif defined (CODEC_GSM)
typedef GSM610_PRIVATE PRIV_T ;
#define PFX gsm610_
static int stub_coder (SF_PRIVATE *psf, GSM610_PRIVATE *p) { (void) p ; stub_block_called ++ ; g_coder_pos = psf_ftell (psf) ; return 1 ; }
#define SETUP(p)	do { (p)->samplesperblock = 160 ; (p)->blocks = 4 ; (p)->blockcount = 1 ; (p)->samplecount = SC ; (p)->decode_block = stub_coder ; (p)->encode_block = stub_coder ; } while (0)
#define POS(p)		((p)->samplecount)
#define SAMPLES(p)	((p)->samples)
#define WNORM		(1.0 * 0x7FFF)
#define SEEK_SPB	160
#define SEEK_FN		gsm610_seek
#define SEEK_BLOCK_BYTES	33
#define SEEK_SETUP(p, nb)	do { (p)->blocksize = 33 ; (p)->blocks = (nb) ; (p)->blockcount = 3 ; psf->sf.format = SF_FORMAT_AIFF | SF_FORMAT_GSM610 ; \
				(p)->gsm_data = gsm_create () ; VASSUME ((p)->gsm_data != NULL) ; } while (0)
#elif defined (CODEC_G72X)
typedef G72x_PRIVATE PRIV_T ;
#define PFX g72x_
#define SETUP(p)	do { (p)->samplesperblock = 120 ; (p)->blocksize = 60 ; (p)->bytesperblock = 60 ; (p)->blocks_total = 4 ; (p)->block_curr = 1 ; (p)->sample_curr = SC ; } while (0)
#define POS(p)		((p)->sample_curr)
#define SAMPLES(p)	((p)->samples)
#define WNORM		(1.0 * 0x8000)
#elif defined (CODEC_NMS)
typedef NMS_ADPCM_PRIVATE PRIV_T ;
#define PFX nms_adpcm_
#define SETUP(p)	do { (p)->type = NMS32 ; (p)->shortsperblock = NMS_BLOCK_SHORTS_32 ; (p)->blocks_total = 4 ; (p)->block_curr = 1 ; (p)->sample_curr = SC ; } while (0)
#define POS(p)		((p)->sample_curr)
#define SAMPLES(p)	((p)->samples)
#define WNORM		(1.0 * 0x8000)
#elif defined (CODEC_SDS)
typedef SDS_PRIVATE PRIV_T ;
#define PFX sds_
#define DOMAIN32 1
static int stub_coder (SF_PRIVATE *psf, SDS_PRIVATE *p) { (void) psf ; (void) p ; stub_block_called ++ ; return 1 ; }
#define SETUP(p)	do { (p)->bitwidth = 16 ; (p)->frames = 1000 ; (p)->samplesperblock = 60 ; (p)->total_blocks = 10 ; (p)->reader = stub_coder ; (p)->writer = stub_coder ; \
				(p)->read_block = 1 ; (p)->read_count = SC ; (p)->write_block = 1 ; (p)->write_count = SC ; } while (0)
#ifdef SEL_READ
#define POS(p)		((p)->read_count)
#define SAMPLES(p)	((p)->read_samples)
#else
#define POS(p)		((p)->write_count)
#define SAMPLES(p)	((p)->write_samples)
#endif
#define RNORM_F(norm)	((norm) == SF_TRUE ? (float) (1.0 / 0x80000000) : (float) (1.0 / (1 << 16)))
#define RNORM_D(norm)	((norm) == SF_TRUE ? (1.0 / 0x80000000) : (1.0 / (1 << 16)))
#define W32_F(norm, x)	((int) (((norm) == SF_TRUE ? (float) (1.0 * 0x80000000) : (float) (1.0 * (1 << 16))) * (x)))
#define W32_D(norm, x)	((int) (((norm) == SF_TRUE ? (1.0 * 0x80000000) : (1.0 * (1 << 16))) * (x)))
#elif defined (CODEC_PAF24)
typedef PAF24_PRIVATE PRIV_T ;
#define PFX paf24_
#define DOMAIN32 1
static int g_samples [10 * CH + 8] ;
static int g_block [8 * CH + 2] ;
#define SETUP(p)	do { (p)->channels = CH ; (p)->max_blocks = 100 ; (p)->blocksize = 32 * CH ; (p)->sample_count = 1000 ; (p)->samples = g_samples ; (p)->block = g_block ; \
				(p)->read_block = 1 ; (p)->read_count = SC ; (p)->write_block = 1 ; (p)->write_count = SC ; } while (0)
#ifdef SEL_READ
#define POS(p)		((p)->read_count)
#else
#define POS(p)		((p)->write_count)
#endif
#define SAMPLES(p)	((p)->samples)
#define RNORM_F(norm)	((norm) == SF_TRUE ? (float) (1.0 / 0x80000000) : (float) (1.0 / 0x100))
#define RNORM_D(norm)	((norm) == SF_TRUE ? (1.0 / 0x80000000) : (1.0 / 0x100))
/* documented rule: normalised <-> full scale; not normalised: the value is the 24-bit sample (MSB-aligned in 32 bits: x 256) */
#define W32_F(norm, x)	((int) lrintf (((norm) == SF_TRUE ? (float) (1.0 * 0x7FFFFFFF) : (float) 256.0) * (x)))
#define W32_D(norm, x)	((int) lrint (((norm) == SF_TRUE ? (1.0 * 0x7FFFFFFF) : 256.0) * (x)))
#else
#error "CODEC"
#endif

#ifdef DOMAIN32
typedef int STAGE_T ;
#define STAGE_ND int
#else
typedef short STAGE_T ;
#define STAGE_ND short
#endif

#if defined (DOMAIN32) && defined (API_s)
#define API_T short
#define API_ND short
#define READ_FN CAT3 (PFX, read_, s)
#define WRITE_FN CAT3 (PFX, write_, s)
#define R_EXPECT(v)	((short) ((v) >> 16))
#define W_EXPECT(x)	((int) ((unsigned) (int) (x) << 16))
#elif defined (DOMAIN32) && defined (API_i)
#define API_T int
#define API_ND int
#define READ_FN CAT3 (PFX, read_, i)
#define WRITE_FN CAT3 (PFX, write_, i)
#define R_EXPECT(v)	(v)
#define W_EXPECT(x)	(x)
#elif defined (DOMAIN32) && defined (API_f)
#define API_T float
#define API_ND float
#define READ_FN CAT3 (PFX, read_, f)
#define WRITE_FN CAT3 (PFX, write_, f)
#define R_EXPECT(v)	((float) (RNORM_F (nd_norm) * (v)))
#define W_EXPECT(x)	W32_F (nd_norm, x)
#elif defined (DOMAIN32) && defined (API_d)
#define API_T double
#define API_ND double
#define READ_FN CAT3 (PFX, read_, d)
#define WRITE_FN CAT3 (PFX, write_, d)
#define R_EXPECT(v)	((double) (RNORM_D (nd_norm) * (v)))
#define W_EXPECT(x)	W32_D (nd_norm, x)
#elif defined (API_s)
#define API_T short
#define API_ND short
#define READ_FN CAT3 (PFX, read_, s)
#define WRITE_FN CAT3 (PFX, write_, s)
#define R_EXPECT(v)	(v)
#define W_EXPECT(x)	(x)
#elif defined (API_i)
#define API_T int
#define API_ND int
#define READ_FN CAT3 (PFX, read_, i)
#define WRITE_FN CAT3 (PFX, write_, i)
#define R_EXPECT(v)	((int) ((unsigned) (int) (v) << 16))
#define W_EXPECT(x)	((short) ((x) >> 16))
#elif defined (API_f)
#define API_T float
#define API_ND float
#define READ_FN CAT3 (PFX, read_, f)
#define WRITE_FN CAT3 (PFX, write_, f)
#define R_EXPECT(v)	((float) ((nd_norm == SF_TRUE ? (float) (1.0 / ((float) 0x8000)) : (float) 1.0) * (float) (v)))
#define W_EXPECT(x)	((short) lrintf ((nd_norm == SF_TRUE ? (float) WNORM : (float) 1.0) * (x)))
#elif defined (API_d)
#define API_T double
#define API_ND double
#define READ_FN CAT3 (PFX, read_, d)
#define WRITE_FN CAT3 (PFX, write_, d)
#define R_EXPECT(v)	((double) ((nd_norm == SF_TRUE ? 1.0 / ((double) 0x8000) : 1.0) * (double) (v)))
#define W_EXPECT(x)	((short) lrint ((nd_norm == SF_TRUE ? WNORM : 1.0) * (x)))
#endif

static SF_PRIVATE g_psf ;
static PRIV_T g_priv ;

int
main (void)
{	SF_PRIVATE *psf = &g_psf ;
	PRIV_T *p = &g_priv ;
	int nd_norm = nondet_int () ;
	sf_count_t ret ;
	int j ;

	{	static const SF_PRIVATE zero_psf ;
		*psf = zero_psf ;
	}
	psf->file.filedes = 0 ;
	psf->sf.channels = CH ;
	VASSUME (nd_norm == SF_TRUE || nd_norm == SF_FALSE) ;
	psf->norm_float = nd_norm ; psf->norm_double = nd_norm ;
	psf->codec_data = p ;
	SETUP (p) ;

#if defined (SEL_READ)
	{	STAGE_T nd_dec [LEN + 2] ;
		API_T *out = malloc (LEN * sizeof (API_T)) ;		/* exact size: any store past item LEN - 1 is an error */
		VASSUME (out != NULL) ;
		psf->file.mode = SFM_READ ;
		ND_FILL (nd_dec, LEN + 2, STAGE_ND) ;
		for (j = 0 ; j < LEN + 2 ; j++) SAMPLES (p) [SC * CH + j] = nd_dec [j] ;
		ret = READ_FN (psf, out, LEN) ;
		VASSERT (ret == LEN, "inside the block every item asked for is delivered") ;
		VASSERT (POS (p) == SC + LEN / CH, "position advances by the frames read") ;
		VASSERT (stub_block_called == 0, "no block is decoded inside the block") ;
		for (j = 0 ; j < LEN ; j++)
			VASSERT (out [j] == R_EXPECT (nd_dec [j]), "item j is decoded sample (position * channels + j), converted for the caller's type") ;
	}
#elif defined (SEL_WRITE)
	{	API_T nd_in [LEN] ;
		API_T *in = malloc (LEN * sizeof (API_T)) ;		/* exact size: any read past item LEN - 1 is an error */
		VASSUME (in != NULL) ;
		psf->file.mode = SFM_WRITE ;
		ND_FILL (nd_in, LEN, API_ND) ;
#if defined (API_f) || defined (API_d)
		for (j = 0 ; j < LEN ; j++) nd_in [j] = (API_T) (nd_norm == SF_TRUE ? 0.0625 * (j + 1) - 0.25 : 1000.5 * (j + 1)) ;	/* position-distinct constants */
#endif
		for (j = 0 ; j < LEN ; j++) in [j] = nd_in [j] ;
		ret = WRITE_FN (psf, in, LEN) ;
		VASSERT (ret == LEN, "every item offered is accepted") ;
		VASSERT (POS (p) == SC + LEN / CH, "staged frame count advances by the frames written") ;
		VASSERT (stub_block_called == 0, "no block is encoded before the block is complete") ;
		for (j = 0 ; j < LEN ; j++)
			VASSERT (SAMPLES (p) [SC * CH + j] == W_EXPECT (nd_in [j]), "item j is staged at (position * channels + j) in the codec's 16-bit domain") ;
	}
#elif defined (SEL_SEEK)
	{	/* X_seek (SFM_READ, offset) for ANY frame offset: the file is positioned at the block that holds the frame (block b of a
		** c-channel file starts at dataoffset + b * BLOCK_BYTES), exactly that block is decoded, the position inside it is
		** offset mod frames-per-block, the offset is returned; offsets beyond the data are refused */
		sf_count_t nd_off = nondet_i64 (), spb = SEEK_SPB, nblocks = 6 ;
		psf->file.mode = SFM_READ ;
		psf->dataoffset = 10 ; psf->datalength = nblocks * SEEK_BLOCK_BYTES ; psf->sf.frames = nblocks * spb ;
		mf [0].len = 10 + nblocks * SEEK_BLOCK_BYTES ; mf [0].pos = 0 ;
		SEEK_SETUP (p, nblocks) ;
		ret = SEEK_FN (psf, SFM_READ, nd_off) ;
		/* (offsets beyond the frame count never reach the codec: sf_seek refuses them - C06 wrap.seek) */
		if (nd_off < 0)
			VASSERT (ret == PSF_SEEK_ERROR, "negative offsets are refused") ;
		else if (nd_off > 0 && nd_off < nblocks * spb)
		{	VASSERT (ret == nd_off, "seek returns the requested frame") ;
			VASSERT (stub_block_called == 1 && g_coder_pos == 10 + (nd_off / spb) * SEEK_BLOCK_BYTES, "exactly the block holding the frame is decoded, from its position in the file") ;
			VASSERT (POS (p) == nd_off % spb, "position inside the block = offset mod frames per block") ;
			} ;
	}
#else
#error "select"
#endif
	WITNESS_END () ;
	return 0 ;
}
