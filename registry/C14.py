from vf import H

HARNESSES = []
_c = dict(link=["common"], stubs=["psf_log_printf"], include_env=("log_stub", "posix_model", "snprintf_model"), timeout=300, checks="mem")
_fn = ["psf_fread", "psf_fwrite", "psf_fseek", "psf_ftell", "psf_get_filelen", "psf_fclose", "psf_close_rsrc", "psf_close_fd", "psf_init_files", "psf_set_file"]
HARNESSES.append(H("fileio.routes", "C14/fileio.c", defines={"SEL_ROUTES": 1, "PX_CAP": 48, "PX_MAXIO": 16, "SNP_MAX": 40}, unwind=50,
                   unwindset=["psf_fread.0:9", "psf_fwrite.0:9", "psf_close_fd.0:4", "snprintf.0:41", "snprintf.1:41"], functions=_fn,
                   bounds="embedding offset k <= 8, embedded length <= 24, trailing junk <= 8, symbolic file bytes, any seek target inside the sub-file, read <= 16 bytes; EINTR up to 2 times in a row per call", **_c))
HARNESSES.append(H("fileio.ownership", "C14/fileio.c", defines={"SEL_OWNERSHIP": 1, "PX_CAP": 48, "PX_MAXIO": 16, "SNP_MAX": 40}, unwind=50,
                   unwindset=["psf_close_fd.0:4", "snprintf.0:41", "snprintf.1:41"], functions=_fn,
                   bounds="route in {descriptor close_desc 0/1, virtual I/O}, with/without a resource-fork descriptor that was closed earlier and re-issued by the OS", **_c))
HARNESSES.append(H("fileio.rw", "C14/fileio.c", defines={"SEL_RW": 1, "PX_CAP": 48, "PX_MAXIO": 16, "SNP_MAX": 40}, unwind=50,
                   unwindset=["psf_fread.0:9", "psf_fwrite.0:9", "snprintf.0:41", "snprintf.1:41"], functions=_fn,
                   bounds="file <= 32 bytes, any position <= 40, request <= 16 bytes, EINTR up to 2 in a row", **_c))
for sel in ("SEL_VIRTUAL", "SEL_FD"):
    HARNESSES.append(H("open_entry." + sel[4:].lower(), "C14/open_entry.c", link=["common"], stubs=["psf_log_printf", "psf_memset"],
                       defines={sel: 1, "MF_CAP": 16, "SNP_MAX": 100, "PSF_MEMSET_MAX": 64}, unwind=8,
                       unwindset=["snprintf.0:101", "snprintf.1:101", "psf_memset.0:65", "strlen.0:110", "psf_rand_int32.0:34"], checks="mem",
                       include_env=("log_stub", "memfile", "memset_model", "snprintf_model", "clock_model"), timeout=300,
                       functions=["sf_open_virtual" if sel == "SEL_VIRTUAL" else "sf_open_fd", "psf_allocate", "psf_init_files", "psf_set_file"],
                       bounds="mode symbolic, callback set complete or missing any one callback / close_desc symbolic, SD2 or not"))

META = {"assumptions": ["E-posix model of read/write/lseek/fstat/close"], "outside": ["the kernel's real behaviour; parsers/codecs only use these primitives (structural argument)", "pipe route: see DESIGN"]}
