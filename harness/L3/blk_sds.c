/* L3 SDS (src/sds.c, 16-bit = 2-byte packing, 60 samples per 127-byte packet),
 * unit obligations on typed codec state (R9) over E-memfile:
 *   SEL_FLUSH  : arbitrary partially filled packet (fill level k symbolic, samples symbolic with zero low
 *                bits) -> real sds_close -> real sds_2byte_read of the flushed packet: samples 0..k-1 are
 *                preserved bit for bit, k..59 are zero                                     [C01 H4b]
 *   SEL_HEADER : real sds_write_header (calc_length = TRUE) in the middle of a packet (SFC_UPDATE_HEADER_NOW):
 *                file position, fill level, packet number and pending samples are restored, so later
 *                packets are the same as without the update                               [C07 H3, C11 H2]
 */
#include "verif.h"
#include <stdlib.h>
#include <string.h>
#include "sds.c"
#include "memfile.h"

static SF_PRIVATE g_psf ;
static SDS_PRIVATE g_sds ;
static unsigned char g_hdr [256] ;

int
main (void)
{	SF_PRIVATE *psf = &g_psf ;
	SDS_PRIVATE *psds = &g_sds ;
	int nd_smp [60] ;
	int nd_k = nondet_int () ;
	int nd_blk = nondet_int () ;
	int k ;

	ND_FILL (nd_smp, 60, int) ;
#ifdef K_FIXED
	nd_k = K_FIXED ;	/* fill level on the grid (a symbolic fill level makes every packet byte a symbolic-offset update) */
	nd_blk = BLK_FIXED ;
#endif
	VASSUME (nd_k >= 1 && nd_k <= 59) ;
	VASSUME (nd_blk >= 0 && nd_blk <= 2) ;
	psf->file.filedes = 0 ;
	psf->file.mode = SFM_WRITE ;
	psf->sf.channels = 1 ;
	psf->sf.samplerate = 44100 ;
	psf->sf.format = SF_FORMAT_SDS | SF_FORMAT_PCM_16 ;
	psf->header.ptr = g_hdr ; psf->header.len = sizeof (g_hdr) ;
	psf->codec_data = psds ;
	psf->dataoffset = SDS_DATA_OFFSET ;
	psds->bitwidth = 16 ;
	psds->samplesperblock = 60 ;
	psds->writer = sds_2byte_write ;
	psds->reader = sds_2byte_read ;
	psds->write_block = nd_blk ;
	psds->total_blocks = nd_blk ;
	psds->write_count = nd_k ;
	psds->total_written = nd_blk * 60 + nd_k ;
	for (k = 0 ; k < 60 ; k++)
	{	VASSUME ((nd_smp [k] & 0x3FFFF) == 0) ;		/* 14 significant bits survive 2-byte SDS packing */
		psds->write_samples [k] = (k < nd_k) ? nd_smp [k] : 0 ;
		} ;
	mf [0].len = SDS_DATA_OFFSET + nd_blk * SDS_BLOCK_SIZE ;
	mf [0].len_min = SDS_DATA_OFFSET ;
	mf [0].pos = mf [0].len ;

#if defined (SEL_FLUSH)
	sds_close (psf) ;
	VASSERT (mf [0].len == SDS_DATA_OFFSET + (nd_blk + 1) * SDS_BLOCK_SIZE, "close flushes exactly one more packet") ;
	/* read the flushed packet back with the real unpacker */
	psds->frames = (nd_blk + 1) * 60 ;
	psds->read_block = nd_blk ;
	mf [0].pos = SDS_DATA_OFFSET + nd_blk * SDS_BLOCK_SIZE ;
	sds_2byte_read (psf, psds) ;
	for (k = 0 ; k < 60 ; k++)
		if (k < nd_k)
			VASSERT (psds->read_samples [k] == nd_smp [k], "samples of the final partial packet are preserved bit for bit") ;
		else
			VASSERT (psds->read_samples [k] == 0, "the rest of the final packet is zero") ;
#elif defined (SEL_HEADER)
	{	sf_count_t pos0 = mf [0].pos ;
		int rc = sds_write_header (psf, SF_TRUE) ;
		VASSERT (rc == 0, "header update succeeds") ;
		VASSERT (mf [0].pos == pos0, "header update restores the file position") ;
		VASSERT (psds->write_count == nd_k, "header update restores the fill level of the pending packet") ;
		VASSERT (psds->write_block == nd_blk, "header update restores the packet number (later packets are numbered as without the update)") ;
		for (k = 0 ; k < 60 ; k++)
			VASSERT (psds->write_samples [k] == ((k < nd_k) ? nd_smp [k] : 0), "header update keeps the pending samples") ;
		VASSERT (psf->sf.frames == nd_blk * 60 + nd_k, "header update records the frames written so far") ;
	}
#else
#error "select"
#endif
	WITNESS_END () ;
	return 0 ;
}
