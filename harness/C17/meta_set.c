/* C09 / C12 H4 / C17: the variable-size metadata setters broadcast_var_set
 * (src/broadcast.c) and cart_var_set (src/cart.c) through the real sf_command
 * dispatch with a SYMBOLIC datasize and symbolic length field: a rejected
 * call returns SF_FALSE, records an error and leaves NO trace on the handle
 * (no empty record that a later get or the header writer would pick up);
 * the caller's block is never read beyond datasize (exact-size heap block,
 * CBMC pointer checks).
 */
#include "verif.h"
#include <stdlib.h>
#include <string.h>
#include "sndfile.c"
#include "handle.h"

static SF_PRIVATE g_psf ;
static int g_hdr_calls ;
static int stub_write_header (SF_PRIVATE *psf, int calc) { (void) psf ; (void) calc ; g_hdr_calls ++ ; return 0 ; }

int
main (void)
{	SF_PRIVATE *psf = &g_psf ;
	unsigned nd_datasize = nondet_uint () ;
	uint32_t nd_lenfield = nondet_uint () ;
	int ret ;
	unsigned char *blk ;

	handle_arbitrary (psf, 1, 2) ;
	VASSUME (psf->file.mode == SFM_WRITE) ;
	psf->sf.format = SF_FORMAT_WAV | SF_FORMAT_PCM_16 ;
	psf->have_written = SF_FALSE ;
	psf->write_header = stub_write_header ;
	psf->error = 0 ;
	g_hdr_calls = 0 ;
#if defined (SEL_BEXT)
	VASSUME (nd_datasize >= offsetof (SF_BROADCAST_INFO, coding_history) && nd_datasize <= offsetof (SF_BROADCAST_INFO, coding_history) + 8) ;
	blk = calloc (1, nd_datasize) ;
	VASSUME (blk != NULL) ;
	((SF_BROADCAST_INFO *) blk)->coding_history_size = nd_lenfield ;
#ifdef ONLY_REFUSED
	VASSUME (offsetof (SF_BROADCAST_INFO, coding_history) + (size_t) nd_lenfield > nd_datasize) ;
#endif
	ret = sf_command ((SNDFILE *) psf, SFC_SET_BROADCAST_INFO, blk, (int) nd_datasize) ;
	if (offsetof (SF_BROADCAST_INFO, coding_history) + (size_t) nd_lenfield > nd_datasize)
	{	VASSERT (ret == SF_FALSE && psf->error != 0, "length field larger than the block: refused with an error") ;
		VASSERT (psf->broadcast_16k == NULL, "a refused SFC_SET_BROADCAST_INFO leaves no (empty) broadcast record on the handle") ;
		VASSERT (g_hdr_calls == 0, "a refused set does not rewrite the header") ;
		}
	else
		VASSERT (ret == SF_TRUE && psf->broadcast_16k != NULL && g_hdr_calls == 1, "valid block accepted, header rewritten once") ;
#elif defined (SEL_CART)
	VASSUME (nd_datasize >= offsetof (SF_CART_INFO, tag_text) && nd_datasize <= offsetof (SF_CART_INFO, tag_text) + 8) ;
	blk = calloc (1, nd_datasize) ;
	VASSUME (blk != NULL) ;
	((SF_CART_INFO *) blk)->tag_text_size = nd_lenfield ;
#ifdef ONLY_REFUSED
	VASSUME (offsetof (SF_CART_INFO, tag_text) + (size_t) nd_lenfield > nd_datasize) ;
#endif
	ret = sf_command ((SNDFILE *) psf, SFC_SET_CART_INFO, blk, (int) nd_datasize) ;
	if (offsetof (SF_CART_INFO, tag_text) + (size_t) nd_lenfield > nd_datasize)
	{	VASSERT (ret == SF_FALSE && psf->error != 0, "length field larger than the block: refused with an error") ;
		VASSERT (psf->cart_16k == NULL, "a refused SFC_SET_CART_INFO leaves no (empty) cart record on the handle") ;
		VASSERT (g_hdr_calls == 0, "a refused set does not rewrite the header") ;
		}
	else
		VASSERT (ret == SF_TRUE && psf->cart_16k != NULL, "valid block accepted") ;
#else
#error "select"
#endif
	WITNESS_END () ;
	return 0 ;
}
