/* C10 / C09: opening for WRITE with ANY sample rate (the whole int range, in
 * particular 0 and negative values, which sf_format_check does not look at):
 * the real X_open + the open gate (validate_sfinfo) either accept - then the
 * rate is >= 1 - or refuse with an error code; never a division by zero or
 * any other fault on the way (CBMC --div-by-zero-check and memory checks).
 */
#include "verif.h"
#include <stdlib.h>
#include <string.h>
#include "sndfile.c"
#include CONTAINER_FILE
#include "memfile.h"
#include "preopen.h"

static SF_PRIVATE g_psf ;
static unsigned char g_hdr [MF_CAP + 264] ;

int
main (void)
{	SF_PRIVATE *psf = &g_psf ;
	SF_INFO si ;
	int nd_sr = nondet_int (), rc ;

	memset (&si, 0, sizeof (si)) ;
#ifdef SR_SMALL
	VASSUME (nd_sr >= -2 && nd_sr <= 2) ;
#endif
	si.samplerate = nd_sr ; si.channels = 1 ; si.format = FMT ;
	mf [0].len = 0 ; mf [0].pos = 0 ;
	verif_pre_open (psf, &si, SFM_WRITE, 0, g_hdr, sizeof (g_hdr)) ;
	rc = OPEN_FN (psf) ;
	VASSERT (rc >= 0 && rc <= SFE_MAX_ERROR, "open returns 0 or a defined error code") ;
	if (rc == 0 && validate_sfinfo (&psf->sf) && validate_psf (psf))
		VASSERT (psf->sf.samplerate >= 1, "a write open that passes the gate has a sample rate >= 1") ;
	WITNESS_END () ;
	return 0 ;
}
