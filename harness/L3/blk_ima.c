/* L3 K-block staging layer of IMA ADPCM (src/ima_adpcm.c): the real
 * ima_read_s / ima_read_block / wavlike_ima_seek / aiff_ima_seek /
 * ima_write_s / ima_write_block / ima_close on typed codec state (R9), with
 * the block transformer replaced by the K-block contract stub: decode_block
 * delivers the ghost samples of the block the file position designates,
 * encode_block records the block it is handed. What remains is the index
 * arithmetic the properties are about:
 *   SEL_SEEKREAD : read p, seek to k, read n  ==  samples k.. of the one
 *                  sequential stream; counts; K-codec-read        [C06 H3, C05 H2]
 *   SEL_WRITE    : write n samples in one call vs two calls (split j), then
 *                  close: same block sequence, frames = blocks * SPB, no
 *                  spurious block                                  [C07 H1, C04 H3, C05 H2]
 * Grid: LAYOUT (0 = WAV/W64, 1 = AIFF), CH. Symbolic: p, k, n, j, samples.
 */
#include "verif.h"
#include <stdlib.h>
#include <string.h>
#include "ima_adpcm.c"
#include "memfile.h"

#define NB	3			/* blocks in the file (per channel group) */
#define F	(NB * SPB)		/* frames */
#define DOFF	8
#if LAYOUT == 0
#define BYTES_PER_GROUP	BS		/* WAV: one block holds all channels */
#define BLOCKS_FIELD	NB
#define BC_STEP		1
#else
#define BYTES_PER_GROUP	(BS * CH)	/* AIFF: one block per channel, CH blocks per frame group */
#define BLOCKS_FIELD	(NB * CH)
#define BC_STEP		CH
#endif

static SF_PRIVATE g_psf [2] ;
static IMA_ADPCM_PRIVATE g_ima [2] ;
static short g_samples [2][SPB * CH] ;
static unsigned char g_block [2][BS * CH + 4] ;
static short g_ghost [NB][SPB * CH] ;		/* what block b decodes to */
static short g_enc [2][NB + 2][SPB * CH] ;	/* blocks handed to the encoder, per handle */
static int g_nenc [2] ;

static int
hidx (SF_PRIVATE *psf)
{	return psf == &g_psf [1] ;
}

/* K-block (decode): one group of BYTES_PER_GROUP bytes from the current file position -> SPB * CH samples */
static int
stub_decode (SF_PRIVATE *psf, IMA_ADPCM_PRIVATE *pima)
{	MEMFILE *f = &mf [psf->file.filedes] ;
	sf_count_t rel = f->pos - DOFF ;
	int b, k ;
	pima->blockcount += BC_STEP ;
	pima->samplecount = 0 ;
	if (pima->blockcount > pima->blocks)
	{	for (k = 0 ; k < SPB * CH ; k++) pima->samples [k] = 0 ;
		return 1 ;
		} ;
	VASSERT (rel >= 0 && rel % BYTES_PER_GROUP == 0 && rel / BYTES_PER_GROUP < NB, "K-block precondition: the file position is the start of a block inside the data") ;
	b = (int) (rel / BYTES_PER_GROUP) ;
	for (k = 0 ; k < SPB * CH ; k++)
		pima->samples [k] = g_ghost [b < NB && b >= 0 ? b : 0][k] ;
	f->pos += BYTES_PER_GROUP ;
	return 1 ;
}

/* K-block (encode): consumes the SPB * CH samples of the block array, writes one group, resets samplecount */
static int
stub_encode (SF_PRIVATE *psf, IMA_ADPCM_PRIVATE *pima)
{	int h = hidx (psf), k ;
	VASSERT (g_nenc [h] < NB + 2, "no more blocks than the samples written can fill") ;
	for (k = 0 ; k < SPB * CH ; k++)
		g_enc [h][g_nenc [h] < NB + 2 ? g_nenc [h] : 0][k] = pima->samples [k] ;
	g_nenc [h] ++ ;
	for (k = 0 ; k < SPB * CH ; k++) pima->samples [k] = 0 ;
	pima->samplecount = 0 ;
	pima->blockcount ++ ;
	mf [psf->file.filedes].pos += BYTES_PER_GROUP ;
	return 1 ;
}

static void
setup (int h, int mode)
{	SF_PRIVATE *psf = &g_psf [h] ;
	IMA_ADPCM_PRIVATE *pima = &g_ima [h] ;
	psf->file.filedes = h ;
	psf->file.mode = mode ;
	psf->sf.channels = CH ;
	psf->sf.format = (LAYOUT ? SF_FORMAT_AIFF : SF_FORMAT_WAV) | SF_FORMAT_IMA_ADPCM ;
	psf->dataoffset = DOFF ;
	psf->datalength = (sf_count_t) NB * BYTES_PER_GROUP ;
	psf->codec_data = pima ;
	pima->channels = CH ; pima->blocksize = BS ; pima->samplesperblock = SPB ; pima->blocks = BLOCKS_FIELD ;
	pima->samples = g_samples [h] ; pima->block = g_block [h] ;
	pima->decode_block = stub_decode ; pima->encode_block = stub_encode ;
	pima->blockcount = 0 ; pima->samplecount = 0 ;
	mf [h].len = DOFF + (sf_count_t) NB * BYTES_PER_GROUP ;
	mf [h].pos = DOFF ;
}

#define SEEKFN(psf, mode, off)	(LAYOUT ? aiff_ima_seek (psf, mode, off) : wavlike_ima_seek (psf, mode, off))

int
main (void)
{	int k ;
#if defined (SEL_SEEKREAD)
	SF_PRIVATE *psf = &g_psf [0] ;
	short nd_ghost [NB * SPB * CH] ;
	int nd_p = nondet_int () ;
	int nd_k = nondet_int () ;
	int nd_n = nondet_int () ;
	short out [(SPB + 3) * CH + 2] ;
	sf_count_t r, s ;

	ND_FILL (nd_ghost, NB * SPB * CH, short) ;
	for (k = 0 ; k < NB * SPB * CH ; k++) g_ghost [k / (SPB * CH)][k % (SPB * CH)] = nd_ghost [k] ;
	setup (0, SFM_READ) ;
	stub_decode (psf, &g_ima [0]) ;			/* what ima_reader_init does: read the first block */
	psf->read_current = 0 ;

	VASSUME (nd_p >= 0 && nd_p <= SPB + 2 && nd_p <= F) ;
	VASSUME (nd_k >= 0 && nd_k <= F) ;
	VASSUME (nd_n >= 1 && nd_n <= SPB + 2) ;
	for (k = 0 ; k < (SPB + 3) * CH + 2 ; k++) out [k] = 0x5555 ;
	if (nd_p > 0)
	{	r = ima_read_s (psf, out, (sf_count_t) nd_p * CH) ;
		VASSERT (r == (sf_count_t) nd_p * CH, "sequential read inside the data returns the whole request") ;
		for (k = 0 ; k < (SPB + 2) * CH ; k++)
			if (k < nd_p * CH)
				VASSERT (out [k] == nd_ghost [k], "sequential read delivers the stream in order") ;
		psf->read_current += r / CH ;		/* as the public wrapper does */
		} ;
	s = SEEKFN (psf, SFM_READ, nd_k) ;
	VASSERT (s == nd_k, "seek inside [0, frames] returns the requested frame") ;
	psf->read_current = s ;
	for (k = 0 ; k < (SPB + 3) * CH + 2 ; k++) out [k] = 0x5555 ;
	if (nd_k < F)					/* (the wrapper never calls the codec at read_current >= frames) */
	{	sf_count_t want = (F - nd_k < nd_n ? F - nd_k : nd_n) * CH ;
		r = ima_read_s (psf, out, (sf_count_t) nd_n * CH) ;
		VASSERT (r >= want && r <= (sf_count_t) nd_n * CH, "read after seek: returns the request (K-codec-read; the wrapper clamps at frames)") ;
		for (k = 0 ; k < (SPB + 2) * CH ; k++)
			if (k < want)
				VASSERT (out [k] == nd_ghost [nd_k * CH + k], "read after seek delivers exactly frames k, k+1, ... of the sequential stream") ;
		for (k = 0 ; k < (SPB + 3) * CH + 2 ; k++)
			if (k >= nd_n * CH)
				VASSERT (out [k] == 0x5555, "nothing written outside [ptr, ptr+len)") ;
		} ;
#elif defined (SEL_WRITE)
	short nd_in [(SPB + 3) * CH] ;
	int nd_n = nondet_int () ;
	int nd_j = nondet_int () ;
	int h, b, nblocks ;
	sf_count_t w ;

	ND_FILL (nd_in, (SPB + 3) * CH, short) ;
	VASSUME (nd_n >= 0 && nd_n <= SPB + 3) ;
	VASSUME (nd_j >= 0 && nd_j <= nd_n) ;
	setup (0, SFM_WRITE) ;
	setup (1, SFM_WRITE) ;
	g_nenc [0] = g_nenc [1] = 0 ;
	if (nd_n > 0)
	{	w = ima_write_s (&g_psf [0], nd_in, (sf_count_t) nd_n * CH) ;
		VASSERT (w == (sf_count_t) nd_n * CH, "K-codec-write: whole request accepted") ;
		} ;
	if (nd_j > 0)
		w = ima_write_s (&g_psf [1], nd_in, (sf_count_t) nd_j * CH) ;
	if (nd_n - nd_j > 0)
		w = ima_write_s (&g_psf [1], nd_in + nd_j * CH, (sf_count_t) (nd_n - nd_j) * CH) ;
	ima_close (&g_psf [0]) ;
	ima_close (&g_psf [1]) ;
	nblocks = (nd_n + SPB - 1) / SPB ;
	for (h = 0 ; h < 2 ; h++)
	{	VASSERT (g_nenc [h] == nblocks, "close flushes a partial block and only a partial block: blocks encoded == ceil (N / block length)") ;
		VASSERT (g_psf [h].sf.frames == (sf_count_t) nblocks * SPB, "frame count at close = blocks * block length (N <= F < N + B)") ;
		} ;
	for (b = 0 ; b < NB ; b++)
		for (k = 0 ; k < SPB * CH ; k++)
			if (b < nblocks)
			{	int idx = b * SPB * CH + k ;
				short expect = idx < nd_n * CH ? nd_in [idx] : 0 ;
				VASSERT (g_enc [0][b][k] == expect, "the encoder is handed the samples in order, the last block zero padded") ;
				VASSERT (g_enc [1][b][k] == g_enc [0][b][k], "same blocks however the samples were split over write calls") ;
				} ;
#else
#error "select"
#endif
	WITNESS_END () ;
	return 0 ;
}
