/* C01 H3 (+ C07 H1): DWVW (src/dwvw.c) write -> close (flush) -> read round
 * trip through the real delta-width bit packer, N samples (grid) with ALL
 * sample values symbolic; split independence of the produced bytes (one call
 * vs two calls at a symbolic split point). Typed codec state (R9).
 */
#include "verif.h"
#include <stdlib.h>
#include <string.h>
#include "dwvw.c"
#include "memfile.h"

static SF_PRIVATE g_psf [2] ;
static DWVW_PRIVATE g_dw [2] ;

static void
setup (int h, int mode)
{	SF_PRIVATE *psf = &g_psf [h] ;
	psf->file.filedes = h ;
	psf->file.mode = mode ;
	psf->sf.channels = 1 ;
	psf->codec_data = &g_dw [h] ;
	g_dw [h].bit_width = BITW ;
	dwvw_read_reset (&g_dw [h]) ;		/* what dwvw_init does after allocating the state */
}

int
main (void)
{	T nd_in [NS] ;
	T out [NS + 2] ;
	int nd_j = nondet_int () ;
	sf_count_t w, r ;
	int k ;

	ND_FILL (nd_in, NS, NDT) ;
#if LOWZERO
	for (k = 0 ; k < NS ; k++) VASSUME ((nd_in [k] & ((1 << LOWZERO) - 1)) == 0) ;	/* low bits the encoding does not keep */
#endif
	VASSUME (nd_j >= 0 && nd_j <= NS) ;
	mf [0].len = mf [0].pos = 0 ;
	mf [1].len = mf [1].pos = 0 ;
	setup (0, SFM_WRITE) ;
	setup (1, SFM_WRITE) ;

	w = WRITE_FN (&g_psf [0], nd_in, NS) ;
	VASSERT (w == NS, "write accepts the request") ;
	dwvw_close (&g_psf [0]) ;

	if (nd_j > 0) WRITE_FN (&g_psf [1], nd_in, nd_j) ;
	if (NS - nd_j > 0) WRITE_FN (&g_psf [1], nd_in + nd_j, NS - nd_j) ;
	dwvw_close (&g_psf [1]) ;
	VASSERT (mf [1].len == mf [0].len, "split independence: same file length") ;
	for (k = 0 ; k < MF_CAP ; k++)
		if (k < mf [0].len)
			VASSERT (mf [1].data [k] == mf [0].data [k], "split independence: identical bytes however the samples are split over write calls") ;

	/* re-open for reading */
	setup (0, SFM_READ) ;
	mf [0].pos = 0 ;
	for (k = 0 ; k < NS + 2 ; k++) out [k] = (T) 0x55 ;
	r = READ_FN (&g_psf [0], out, NS) ;
	VASSERT (r == NS, "all samples come back") ;
	for (k = 0 ; k < NS ; k++)
		VASSERT (out [k] == nd_in [k], "DWVW round trip is bit exact") ;
	VASSERT (out [NS] == (T) 0x55, "nothing written past the request") ;
	WITNESS_END () ;
	return 0 ;
}
