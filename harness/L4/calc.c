/* C18 H3 / C17 H2 / C02 (norm flag): the real psf_calc_signal_max and
 * psf_calc_max_all_channels (src/command.c) through the real sf_command
 * dispatch (src/sndfile.c), with sf_read_double / sf_seek replaced by their
 * CONTRACTS (R5) - exactly the behaviour that L4/wrap_rw.c and L4/wrap_seek.c
 * prove for the real functions - over a ghost stream of <= FR_MAX frames.
 * Asserts: result == max |x| (per channel), read position, codec position and
 * normalisation setting restored, nothing else changed (purity).
 */
#include "verif.h"
#include <stdlib.h>
#include <math.h>
#define sf_read_double	REAL_sf_read_double
#define sf_seek		REAL_sf_seek
#include "sndfile.c"
#undef sf_read_double
#undef sf_seek
#include "handle.h"

static SF_PRIVATE g_psf ;
static double g_stream [FR_MAX * CH] ;
static int g_norm_seen_at_read = -1 ;
static int g_reads ;

/* contract of sf_read_double (proved for the real function by wrap.read_double.*) */
sf_count_t
sf_read_double (SNDFILE *sndfile, double *ptr, sf_count_t len)
{	SF_PRIVATE *psf = (SF_PRIVATE *) sndfile ;
	sf_count_t r, i, left ;
	VASSERT (psf == &g_psf && len > 0 && len % CH == 0, "sf_read_double precondition (valid handle, whole frames)") ;
	VASSERT (len <= (sf_count_t) (SF_BUFFER_LEN / sizeof (double)), "request fits the staging buffer it was given") ;
	psf->error = 0 ;
	g_reads ++ ;
	g_norm_seen_at_read = psf->norm_double ;
	left = psf->sf.frames - psf->read_current ;
	if (left <= 0)
	{	for (i = 0 ; i < (sf_count_t) (SF_BUFFER_LEN / sizeof (double)) ; i++)
			if (i < len) ptr [i] = 0.0 ;
		return 0 ;
		} ;
	r = left * CH < len ? left * CH : len ;
	for (i = 0 ; i < (sf_count_t) (SF_BUFFER_LEN / sizeof (double)) ; i++)
		if (i < r) ptr [i] = g_stream [psf->read_current * CH + i] ;
	psf->read_current += r / CH ;
	psf->last_op = SFM_READ ;
	return r ;
}

/* contract of sf_seek for the two forms command.c uses (proved by wrap.seek.*) */
sf_count_t
sf_seek (SNDFILE *sndfile, sf_count_t offset, int whence)
{	SF_PRIVATE *psf = (SF_PRIVATE *) sndfile ;
	sf_count_t target ;
	VASSERT (psf == &g_psf, "sf_seek on the caller's handle") ;
	VASSERT (whence == SEEK_SET || whence == SEEK_CUR, "command.c uses plain SEEK_SET / SEEK_CUR only") ;
	psf->error = 0 ;
	if (whence == SEEK_CUR && offset == 0 && psf->file.mode != SFM_RDWR)
		return psf->file.mode == SFM_READ ? psf->read_current : psf->write_current ;
	if (whence == SEEK_SET) target = offset ;
	else target = (psf->file.mode == SFM_READ ? psf->read_current : psf->write_current) + offset ;
	if (target < 0 || (psf->file.mode == SFM_READ && target > psf->sf.frames))
	{	psf->error = SFE_BAD_SEEK ;
		return PSF_SEEK_ERROR ;
		} ;
	if (psf->file.mode == SFM_READ) { psf->read_current = target ; psf->last_op = SFM_READ ; }
	else if (psf->file.mode == SFM_WRITE) { psf->write_current = target ; psf->last_op = SFM_WRITE ; }
	else { psf->read_current = target ; psf->write_current = target ; psf->last_op = SFM_READ ; } ;
	return target ;
}

static sf_count_t dummy_read (SF_PRIVATE *psf, double *ptr, sf_count_t len) { (void) psf ; (void) ptr ; (void) len ; VASSERT (0, "codec reached only through sf_read_double") ; return 0 ; }

int
main (void)
{	SF_PRIVATE *psf = &g_psf ;
	HSNAP before ;
	double out [CH + 1], ref [CH], refall = 0.0 ;
	double nd_stream [FR_MAX * CH], nd_out [CH + 1] ;
	int nd_normd = nondet_int () ;
	int k, ret, normalize ;

	handle_arbitrary (psf, CH, 2) ;
	VASSUME (psf->file.mode != SFM_WRITE) ;
#ifdef KF_calcrdwr
	VASSUME (psf->file.mode == SFM_READ || psf->read_current == psf->write_current) ;
#endif
#ifdef PROBE_calcrdwr
	VASSUME (psf->file.mode == SFM_RDWR && psf->read_current != psf->write_current) ;
#endif
	psf->sf.seekable = SF_TRUE ;
	psf->sf.format = SF_FORMAT_WAV | SF_FORMAT_PCM_16 ;
	psf->read_double = dummy_read ;
	psf->float_max = -1.0 ;
	VASSUME (nd_normd == SF_TRUE || nd_normd == SF_FALSE) ;
	psf->norm_double = nd_normd ;
	/* the file may carry a PEAK chunk whose values say anything (stale after an edit, zero after sf_write_raw): the CALC
	** commands measure the samples and must not be satisfied by it */
	{	int nd_haspeak = nondet_int () ;
		double nd_pk [CH] ;
		ND_FILL (nd_pk, CH, double) ;
		if (nd_haspeak == 1)
		{	psf->peak_info = peak_info_calloc (CH) ;
			VASSUME (psf->peak_info != NULL) ;
			for (k = 0 ; k < CH ; k++)
			{	VASSUME (nd_pk [k] == nd_pk [k] && nd_pk [k] >= 0.0 && nd_pk [k] < 1e30) ;
				psf->peak_info->peaks [k].value = nd_pk [k] ;
				} ;
			} ;
	}
	for (k = 0 ; k < CH ; k++) ref [k] = 0.0 ;
	ND_FILL (nd_stream, FR_MAX * CH, double) ;
	for (k = 0 ; k < FR_MAX * CH ; k++)
	{	double nd_s = nd_stream [k] ;
		VASSUME (nd_s == nd_s && nd_s > -1e30 && nd_s < 1e30) ;
		g_stream [k] = nd_s ;
		if (k < psf->sf.frames * CH)
		{	double a = nd_s < 0 ? -nd_s : nd_s ;
			if (a > ref [k % CH]) ref [k % CH] = a ;
			if (a > refall) refall = a ;
			} ;
		} ;
	ND_FILL (nd_out, CH + 1, double) ;	/* whatever the caller's array held before */
	for (k = 0 ; k < CH + 1 ; k++)
		out [k] = nd_out [k] ;
	hsnap_take (psf, &before) ;

#if ALLCH
	normalize = (CMD == SFC_CALC_NORM_MAX_ALL_CHANNELS) ;
	ret = sf_command ((SNDFILE *) psf, CMD, out, sizeof (double) * CH) ;
	VASSERT (ret == 0, "per-channel CALC succeeds") ;
	for (k = 0 ; k < CH ; k++)
		VASSERT (out [k] == ref [k], "per-channel result == true max |x| of that channel") ;
#else
	normalize = (CMD == SFC_CALC_NORM_SIGNAL_MAX) ;
	ret = sf_command ((SNDFILE *) psf, CMD, out, sizeof (double)) ;
	VASSERT (ret == 0, "CALC succeeds") ;
	VASSERT (out [0] == refall, "result == true max |x| over all stored samples") ;
#endif
	if (before.frames > 0)
		VASSERT (g_reads >= 1 && g_norm_seen_at_read == (normalize ? SF_TRUE : SF_FALSE), "the scan runs with the requested normalisation") ;
	VASSERT (psf->norm_double == nd_normd, "normalisation setting is left as it was") ;
	VASSERT (psf->read_current == before.read_current, "read position is left as it was") ;
	before.last_op = psf->last_op ;		/* internal "which pointer owns the descriptor" flag: not observable, may change */
	VASSERT (hsnap_same (psf, &before), "positions, frame count, flags and settings unchanged (purity)") ;
	VASSERT (psf->float_max == -1.0f, "a query does not prime the float->int scaling state") ;
	VASSERT (psf->error == 0, "no error left") ;
	WITNESS_END () ;
	return 0 ;
}
