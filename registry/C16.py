from vf import H
import importlib.util, os
def _load(n):
    spec = importlib.util.spec_from_file_location("reg_%s_x" % n, os.path.join(os.path.dirname(os.path.abspath(__file__)), n + ".py"))
    m = importlib.util.module_from_spec(spec); spec.loader.exec_module(m); return m
ALL_UNITS = _load("allunits").ALL_UNITS

G72 = ["g72x", "G72x/g72x", "G72x/g721", "G72x/g723_16", "G72x/g723_24", "G72x/g723_40"]
BASE = ["common", "chunk", "strings", "broadcast", "cart", "command", "id3", "chanmap", "audio_detect"]
OC = [("au", "au.c", "au_open", "SF_FORMAT_AU", 40, ["pcm", "ulaw", "alaw", "float32", "double64"] + G72),
      ("voc", "voc.c", "voc_open", "SF_FORMAT_VOC", 40, ["pcm", "ulaw", "alaw"]),
      ("svx", "svx.c", "svx_open", "SF_FORMAT_SVX", 48, ["pcm"]),
      ("htk", "htk.c", "htk_open", "SF_FORMAT_HTK", 24, ["pcm"]),
      ("avr", "avr.c", "avr_open", "SF_FORMAT_AVR", 140, ["pcm"]),
      ("mpc2k", "mpc2k.c", "mpc2k_open", "SF_FORMAT_MPC2K", 48, ["pcm"]),
      ("ircam", "ircam.c", "ircam_open", "SF_FORMAT_IRCAM", 40, ["pcm", "ulaw", "alaw", "float32"]),
      ("mat4", "mat4.c", "mat4_open", "SF_FORMAT_MAT4", 48, ["pcm", "float32", "double64"]),
      ("wve", "wve.c", "wve_open", "SF_FORMAT_WVE", 40, ["alaw"])]
def oc_harnesses():
    out = []
    for tag, cfile, openfn, fmt, flen, units in OC:
        d = {"CONTAINER_FILE": '"%s"' % cfile, "OPEN_FN": openfn, "FMT": fmt, "FLEN_MAX": flen, "MF_CAP": flen + 8, "MF_MAXIO": flen + 8, "SNP_MAX": 40, "PSF_MEMSET_MAX": 64}
        out.append(H("openclose.rd." + tag, "C16/open_close.c", link=BASE + units, stubs=["psf_log_printf", "psf_memset"],
                     defines=d, unwind=10, unwindset=["psf_fread.0:%d" % (flen + 9), "psf_memset.0:65", "strlen.0:70", "psf_binheader_readf.1:40", "snprintf.0:41", "snprintf.1:41",
                                                      "main.0:%d" % (flen + 2), "main.1:%d" % (flen + 2), "main.2:%d" % (flen + 2), "main.3:258", "main.2:258"],
                     checks="leak", include_env=("log_stub", "memfile", "memset_model", "snprintf_model", "libm_model"), timeout=400,
                     tiers=("thorough",),
                     functions=[openfn, "psf_close", "psf_allocate"], bounds="arbitrary file of 0..%d bytes (content and length symbolic), any parse outcome" % flen))
    return out
HARNESSES = []
HARNESSES.append(H("close_frees", "C16/close_frees.c", link=["common"], stubs=["psf_log_printf", "psf_memset"], defines={"MF_CAP": 16, "SNP_MAX": 40, "PSF_MEMSET_MAX": 64},
                   unwind=6, checks="leak", include_env=("log_stub", "memfile", "memset_model", "snprintf_model"), timeout=300,
                   functions=["psf_close", "psf_fclose (E-memfile)"], bounds="any subset of the 17 kinds of allocation a handle can own; 0..2 custom chunks with payloads; close hooks present or not"))
for h in oc_harnesses():
    h.tiers = ("thorough",)      # whole-parser + close leak check: does not finish within the quick budget (see DESIGN)
    HARNESSES.append(h)
SEQS = [("aiff", "aiff.c", "aiff_open", "SF_FORMAT_AIFF", [(1, {}), (2, {}), (3, {}), (4, {}), (5, {}), (6, {"CTYPE": '"NONE"'}), (6, {"CTYPE": '"sowt"'}), (6, {"CTYPE": '"fl32"'}),
                                                             (6, {"CTYPE": '"ulaw"'}), (7, {}), (8, {}), (1, {"TRUNC_AT": 70}), (4, {"TRUNC_AT": 61})])]
def seq_harnesses():
    out = []
    for tag, cfile, openfn, fmt, seqs in SEQS:
        for seq, extra in seqs:
            d = {"CONTAINER_FILE": '"%s"' % cfile, "OPEN_FN": openfn, "FMT": fmt, "SEQ": seq, "MF_CAP": 192, "MF_MAXIO": 200, "POOL": 96, "SNP_MAX": 40, "PSF_MEMSET_MAX": 64,
                 "LIBSNDFILE_VERIF_BUFFER_LEN": 64, "STUB_APPEND_SNPRINTF": 1}
            d.update(extra)
            name = "chunkseq.%s.s%d%s" % (tag, seq, "".join("." + str(v).strip('"').lower() for v in extra.values()))
            out.append(H(name, "C03/chunkseq.c", link=[u for u in ALL_UNITS if u + ".c" != cfile], stubs=["psf_log_printf", "psf_memset", "append_snprintf"], defines=d,
                         unwind=12, unwindset=["psf_fread.0:201", "psf_memset.0:65", "strlen.0:70", "strcmp.0:70", "snprintf.0:41", "snprintf.1:41", "psf_binheader_readf.0:20",
                                               "psf_binheader_readf.1:40", "memcmp.0:24", "SYM.0:97", "ZERO.0:70", "main.0:98", "strncpy.0:260", "psf_sanitize_string.0:260", "strcpy.0:260", "psf_strlcpy.0:260", "aiff_read_header.6:258", "aiff_read_header.5:4"],
                         checks="leak_np" if seq in (1, 2, 3, 4) else "leak", fsa=480,
                         # measured: s2 s3 s7 and the truncated variants 15..30 s; s1 s4 ~360 s; s5 s6 s8 (symbolic sample size / compression
                         # type -> every codec init explored) no verdict in 420 s: kept for the record in no registered tier
                         tiers=(("quick", "thorough") if (seq in (2, 3, 7) or "TRUNC_AT" in extra) else ("thorough",) if seq in (1, 4) else ()), include_env=("log_stub", "memfile", "memset_model", "snprintf_model", "libm_model"), timeout=600,
                         functions=[openfn, cfile + " chunk parsers", "psf_binheader_readf", "psf_store_read_chunk", "codec init", "psf_close"],
                         bounds="chunk sequence %d of harness/C03/seqs.h (ids, declared sizes on the grid; every content byte symbolic; counts the parser loops on <= 2..3)%s" % (
                             seq, "; file truncated at byte %d" % extra["TRUNC_AT"] if "TRUNC_AT" in extra else "")))
    return out
def alac_harnesses():
    out = []
    for faulty, ch, npk in ((0, 1, 0), (0, 1, 1), (0, 2, 2), (1, 1, 1), (1, 1, 0)):
        d = {"CH_FIXED": ch, "NPK_FIXED": npk, "LIBSNDFILE_VERIF_ALAC_BYTE_BUFFER_SIZE": 256, "MF_CAP": 160, "MF_MAXIO": 64, "SNP_MAX": 40, "PSF_MEMSET_MAX": 64, "LIBSNDFILE_VERIF_BUFFER_LEN": 64, "ENC_MAX": 40, "SM_MAXIO": 64}
        if faulty: d["MF_FAULTY"] = 1
        out.append(H("alac.close.ch%d.pk%d" % (ch, npk) + (".faulty" if faulty else ""), "L3/alac_close.c", link=["common", "chunk"], stubs=["psf_log_printf", "psf_memset"], defines=d,
                     unwind=8, unwindset=["psf_fread.0:65", "psf_fwrite.0:65", "psf_memset.0:65", "snprintf.0:41", "snprintf.1:41", "strlen.0:70", "psf_rand_int32.0:34",
                                          "fread.0:65", "alac_close.0:4", "memset.0:50", "main.0:8"],
                     checks="leak", fsa=240, include_env=("log_stub", "memfile", "memset_model", "snprintf_model", "clock_model", "stdio_model"), timeout=300,
                     functions=["alac_init", "alac_writer_init", "psf_open_tmpfile", "alac_close", "alac_encode_block", "alac_pakt_append", "alac_pakt_encode", "psf_save_write_chunk", "psf_close"],
                     bounds="%d channel(s), packet buffer shrunk to 256 bytes per channel (hook), %d packet(s) of 0..40 bytes already spooled, 0..3 frames pending; spool-file creation may fail, every spool write may be short"
                            % (ch, npk) + ("; every output write/seek may fail (fault schedule)" if faulty else "")))
    return out
def codec_init_harnesses():
    out = []
    for cid, cfile, fmt, tag in (("GSM", "gsm610.c", "(SF_FORMAT_AIFF | SF_FORMAT_GSM610)", "gsm610.aiff"), ("GSM", "gsm610.c", "(SF_FORMAT_WAV | SF_FORMAT_GSM610)", "gsm610.wav"),
                                 ("G72X", "g72x.c", "(SF_FORMAT_AU | SF_FORMAT_G721_32)", "g721.au")):
        for mode in ("SFM_READ", "SFM_WRITE"):
            d = {"CODEC_" + cid: 1, "CODEC_FILE": '"%s"' % cfile, "FMT": fmt, "MODE": mode, "MF_FAULTY": 1, "MF_CAP": 168, "MF_MAXIO": 70, "SNP_MAX": 40, "PSF_MEMSET_MAX": 64,
                 "LIBSNDFILE_VERIF_BUFFER_LEN": 64, "MEMCPY_MAX": 700}
            out.append(H("codec_init_close.%s.%s" % (tag, mode[4:].lower()), "C16/codec_init_close.c", link=["common"], stubs=["psf_log_printf", "psf_memset"], defines=d, unwind=6,
                         unwindset=["psf_fread.0:71", "psf_fwrite.0:71", "snprintf.0:41", "snprintf.1:41", "memset.0:701", "memcpy.0:701"], checks="leak", fsa=700,
                         include_env=("log_stub", "memfile", "memset_model", "snprintf_model"), timeout=300,
                         functions=[cfile[:-2] + "_init", cfile[:-2] + "_close", "first block decode", "psf_close"],
                         bounds="file length 0..160 symbolic (read mode), every read/seek may fail or be short, library decode may report an error; codec library = contract stub"))
    return out
def sd2_harnesses():
    out = []
    for rlen in (80, 96):
        out.append(H("sd2.parse.r%d" % rlen, "C16/sd2_parse.c", link=["common", "pcm"], stubs=["psf_log_printf", "psf_memset"],
                     defines={"RLEN": rlen, "HDR_FIXED": 1, "DLEN": 16, "MF_CAP": 104, "MF_MAXIO": 104, "SNP_MAX": 40, "PSF_MEMSET_MAX": 64, "LIBSNDFILE_VERIF_BUFFER_LEN": 64}, unwind=8,
                     unwindset=["psf_fread.0:105", "main.0:%d" % (rlen + 2), "main.1:%d" % (rlen + 2), "main.2:%d" % (rlen + 2), "main.3:%d" % (rlen + 2), "read_rsrc_str.0:34", "strstr.0:12", "strstr.1:34", "strlen.0:34", "snprintf.0:41", "snprintf.1:41",
                                "sd2_parse_rsrc_fork.0:%d" % (rlen // 8 + 3), "parse_str_rsrc.0:%d" % (rlen // 12 + 3), "strtol.0:34", "strncmp.0:12"],
                     checks="leak", fsa=130, include_env=("log_stub", "memfile", "memset_model", "snprintf_model", "strstr_model"), timeout=600,
                     tiers=("quick", "thorough") if rlen == 80 else ("thorough",),
                     functions=["sd2_open", "sd2_parse_rsrc_fork", "parse_str_rsrc", "read_rsrc_*", "psf_use_rsrc (E-memfile)", "psf_close"],
                     bounds="resource fork of %d bytes: consistent 16-byte fork header on the grid, every byte of the resource map / items / strings symbolic; header cache 32 bytes (the fork gets its own heap block)" % rlen))
    return out
def setter_harnesses():
    out = []
    names = {1: "cue", 2: "inst", 3: "chanmap", 4: "str"}
    for a, b in ((1, 1), (2, 2), (3, 3), (4, 4), (1, 2), (3, 1), (4, 3)):
        out.append(H("setters_close.%s.%s" % (names[a], names[b]), "C16/setters_close.c", link=["common", "strings", "command"], stubs=["psf_log_printf", "psf_memset"],
                     defines={"SET_A": a, "SET_B": b, "MF_CAP": 16, "SNP_MAX": 40, "PSF_MEMSET_MAX": 64, "MEMCPY_MAX": 600}, unwind=8,
                     unwindset=["snprintf.0:41", "snprintf.1:41", "strlen.0:8", "psf_store_string.0:8", "psf_store_string.1:8", "memcpy.0:601", "memset.0:601", "sf_command.0:4"],
                     checks="leak_np", include_env=("log_stub", "memfile", "memset_model", "snprintf_model", "clock_model"), timeout=300,
                     functions=["sf_command(SFC_SET_CUE / SFC_SET_INSTRUMENT / SFC_SET_CHANNEL_MAP_INFO)", "sf_set_string", "psf_cues_dup", "psf_store_string", "psf_close"],
                     bounds="two setter calls (%s then %s) with symbolic contents on a fresh write handle, then close" % (names[a], names[b])))
    return out
HARNESSES += setter_harnesses()
HARNESSES += codec_init_harnesses()
HARNESSES += sd2_harnesses()
HARNESSES += alac_harnesses()
HARNESSES += seq_harnesses()
HARNESSES += [h for h in _load("C14").HARNESSES if h.name.startswith("fileio.ownership")]
META = {"assumptions": ["E-memfile", "E-stdio ghost stream for the ALAC spool file", "allocation never fails (failure of malloc itself is outside this harness)"],
        "outside": ["setters + close (H3)", "SD2 resource fork", "chunked parsers other than the listed AIFF sequences", "the ALAC bit-stream library (contract stub)"]}
