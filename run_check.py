#!/usr/bin/env python3
"""run_check.py <Cxx> [--tier quick|thorough] [--only <substr>] [--replay <dir>] [--keep]

Decides one property by bounded symbolic execution (CBMC) of the real
libsndfile sources in /repo's current working tree. Exit 0: every obligation
of every harness discharged within the stated bounds (known findings are
printed as KNOWN-FINDING lines). Exit 1: a counterexample that reproduced
natively ("VIOLATION property=<id> replay=<path>").
"""
import os, sys, json, time, argparse, importlib.util, shutil
sys.path.insert(0, os.path.join(os.path.dirname(os.path.abspath(__file__)), "lib"))
import vf
from concurrent.futures import ThreadPoolExecutor, as_completed


def load_registry(pid):
    path = os.path.join(vf.VERIF, "registry", pid + ".py")
    spec = importlib.util.spec_from_file_location("reg_" + pid, path)
    mod = importlib.util.module_from_spec(spec)
    spec.loader.exec_module(mod)
    return mod


def main():
    ap = argparse.ArgumentParser()
    ap.add_argument("pid")
    ap.add_argument("--tier", default=os.environ.get("VERIF_TIER", "quick"))
    ap.add_argument("--only", default=None)
    ap.add_argument("--replay", default=None)
    ap.add_argument("--keep", action="store_true")
    ap.add_argument("--no-evidence", action="store_true")
    ap.add_argument("--jobs", type=int, default=vf.NCPU)
    a = ap.parse_args()
    pid = a.pid
    seed = int(os.environ.get("VERIF_SEED", "0") or 0)
    t0 = time.time()

    if a.replay:
        return do_replay(pid, a.replay)

    reg = load_registry(pid)
    hs = [h for h in reg.HARNESSES if a.tier in h.tiers]
    if a.only:
        pats = [x for x in a.only.split(",") if x]
        hs = [h for h in hs if any(x in h.name for x in pats)]
    known, fixed = vf.load_known_findings()
    known_keys = set(known.keys())     # a finding is keyed by harness family; every property that runs that harness excludes it
    # probes only run for findings that are listed
    hs = [h for h in hs if h.probe_for is None or h.probe_for in known_keys]

    ctx = vf.Ctx(keep=a.keep)
    replay_root = os.path.join(vf.VERIF, "replays", pid)
    if os.path.isdir(replay_root) and not a.only:
        shutil.rmtree(replay_root, ignore_errors=True)
    results = []
    try:
        # longest first
        order = sorted(hs, key=lambda h: -h.timeout)
        with ThreadPoolExecutor(max_workers=a.jobs) as ex:
            futs = {ex.submit(vf.run_one, ctx, h, known_keys, replay_root): h for h in order}
            for f in as_completed(futs):
                r = f.result()
                results.append(r)
                if os.environ.get("VERIF_VERBOSE"):
                    print("  [%s] %-60s %6.1fs props=%d ok=%d %s" % (r.status, r.h.name, r.wall, r.n_props, r.n_ok, r.detail[:200]), flush=True)
    finally:
        ctx.cleanup()

    results.sort(key=lambda r: r.h.name)
    violations = 0
    exit_code = 0
    lines = []
    known_seen = []
    inconclusive = []
    errors = []
    unconfirmed = []
    for r in results:
        h = r.h
        if h.probe_for is not None:
            # a probe demonstrates a listed finding: failure is expected
            if r.status in ("violation",):
                known_seen.append(h.probe_for)
                lines.append("KNOWN-FINDING: property=%s %s [%s]" % (pid, known[h.probe_for][1], h.probe_for))
                r.status = "known"
            elif r.status in ("unconfirmed",):
                known_seen.append(h.probe_for)
                lines.append("KNOWN-FINDING: property=%s %s [%s] (solver counterexample; native replay did not trip a sanitizer)" % (pid, known[h.probe_for][1], h.probe_for))
                r.status = "known"
            elif r.status == "pass":
                pass                # finding no longer present: nothing printed
            elif r.status == "inconclusive":
                inconclusive.append(r)
            else:
                errors.append(r)
            continue
        if r.status == "violation":
            violations += 1
            exit_code = 1
            for fe in r.failed:
                if fe.get("reproduced"):
                    lines.append("VIOLATION property=%s replay=%s" % (pid, fe["replay_dir"]))
                    lines.append("  harness=%s obligation=%s at %s" % (h.name, fe["description"], fe["location"]))
                    break
        elif r.status == "unconfirmed":
            unconfirmed.append(r)
            for fe in r.failed:
                lines.append("UNCONFIRMED-CEX harness=%s obligation=%s at %s" % (h.name, fe["description"], fe["location"]))
        elif r.status == "inconclusive":
            inconclusive.append(r)
            lines.append("INCONCLUSIVE harness=%s %s %s" % (h.name, r.detail, "; ".join("%s @%s" % (fe["description"], fe["location"]) for fe in r.failed)))
        elif r.status in ("error", "vacuous"):
            errors.append(r)
            lines.append("MACHINERY-ERROR harness=%s status=%s %s" % (h.name, r.status, r.detail[-400:].replace("\n", " ")))
    if errors and exit_code == 0:
        exit_code = 3
    if (inconclusive or unconfirmed) and exit_code == 0 and os.environ.get("VERIF_STRICT"):
        exit_code = 2

    wall = time.time() - t0
    seen = set()
    for l in lines:
        if l.startswith("KNOWN-FINDING") and l in seen:
            continue
        seen.add(l)
        print(l)
    npass = sum(1 for r in results if r.status in ("pass", "known"))
    print("%s tier=%s harnesses=%d pass=%d violations=%d unconfirmed=%d inconclusive=%d errors=%d wall=%.1fs" % (
        pid, a.tier, len(results), npass, violations, len(unconfirmed), len(inconclusive), len(errors), wall))

    if not a.no_evidence and not a.only:
        write_evidence(pid, a.tier, seed, reg, results, wall, violations, known_seen, known, fixed)
    return exit_code


def write_evidence(pid, tier, seed, reg, results, wall, violations, known_seen, known, fixed):
    meta = getattr(reg, "META", {})
    obligations = sum(r.n_props for r in results)
    discharged = sum(r.n_ok for r in results)
    queries = sum(r.queries for r in results)
    nontriv = len({r.h.name for r in results if r.witness_reached and r.n_props > 0})
    samples = []
    for r in results:
        h = r.h
        samples.append({
            "harness": h.name, "source": "harness/" + h.src, "defines": h.defines,
            "linked_units": list(h.link), "stubbed_functions": list(h.stubs), "env_models": list(h.include_env),
            "functions_encoded": list(h.functions), "bounds": h.bounds,
            "unwind_default": h.unwind, "unwindset": list(h.unwindset), "checks": h.checks,
            "solver": h.solver, "status": r.status, "obligations": r.n_props, "discharged": r.n_ok,
            "witness_reachable": r.witness_reached, "filtered_va_arg_artefacts": r.artefacts,
            "wall_s": round(r.wall, 2), "solver_s": round(r.solver_s, 3), "peak_rss_kb_children": r.rss_kb,
            "formula": r.stats, "queries": r.queries, "cmd": r.cmd,
            "failed": r.failed, "detail": r.detail[:500], "known_finding_excluded": [k for k in h.kf if k in known],
        })
    ev = {
        "property_id": pid, "tier": tier, "seed": seed, "level": "model_checking",
        "coverage": {
            "evaluations": max(queries, 1),
            "distinct_nontrivial": nontriv,
            "rule": "one evaluation = one CBMC solver run over a (harness, configuration) pair; every symbolic input "
                    "inside the stated bounds is covered by that one query. A pair counts as distinct and non-trivial "
                    "when its name is unique, it carries at least one obligation and its vacuity witness "
                    "(assert(0) at the end of the harness) was reported reachable by the solver.",
            "samples": samples,
            "obligations": obligations, "discharged": discharged,
            "checker_cmd": "python3 /verif/run_check.py %s --tier %s" % (pid, tier),
            "trusted_base": ["cbmc 6.11.0 (goto-cc front end, symex, bit-blasting, SAT back ends minisat/cadical/kissat)",
                             "environment models under /verif/env (listed per harness)",
                             "harness preconditions (VASSUME) listed in DESIGN.md per property"] + list(meta.get("trusted", [])),
            "exhaustive": False,
            "functions_encoded": sorted({f for r in results for f in r.h.functions}),
            "solver_time_s": round(sum(r.solver_s for r in results), 2),
            "inconclusive": [r.h.name for r in results if r.status == "inconclusive"],
            "unconfirmed_counterexamples": [r.h.name for r in results if r.status == "unconfirmed"],
            "machinery_errors": [r.h.name for r in results if r.status in ("error", "vacuous")],
            "known_findings_observed": known_seen,
            "outside_the_claim": meta.get("outside", []),
        },
        "assumptions": list(meta.get("assumptions", [])),
        "wall_s": round(wall, 2),
        "violations": violations,
    }
    os.makedirs(os.path.join(vf.VERIF, "evidence"), exist_ok=True)
    p = os.path.join(vf.VERIF, "evidence", pid + ".json")
    with open(p + ".tmp", "w") as f:
        json.dump(ev, f, indent=1)
    os.replace(p + ".tmp", p)
    if tier != "quick":
        # keep the deeper run's record next to the per-change one (evidence/<id>.json is rewritten by every run)
        os.makedirs(os.path.join(vf.VERIF, "evidence", tier), exist_ok=True)
        shutil.copyfile(p, os.path.join(vf.VERIF, "evidence", tier, pid + ".json"))


def do_replay(pid, path):
    rp = os.path.join(path, "replay.json") if os.path.isdir(path) else path
    d = json.load(open(rp))
    reg = load_registry(pid)
    h = [x for x in reg.HARNESSES if x.name == d["harness"]]
    if not h:
        print("no such harness", d["harness"])
        return 2
    h = h[0]
    ctx = vf.Ctx()
    try:
        vals = [tuple(v) for v in d["values"]]
        ok, info = vf.native_replay(ctx, h, vals, os.path.dirname(rp))
        print("replay of %s / %s: reproduced=%s %s" % (h.name, d["description"], ok, info.get("kind")))
        print(info.get("stderr_tail", ""))
        return 1 if ok else 0
    finally:
        ctx.cleanup()


if __name__ == "__main__":
    sys.exit(main())
