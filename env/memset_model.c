/* Contract model of psf_memset (src/common.c): destination must be writable
 * for len bytes (asserted - this is where an over-long zero-fill is caught);
 * the fill itself is a byte loop bounded by PSF_MEMSET_MAX (R3: CBMC's
 * symbolic-length memset on a symbolic-size object does not terminate).
 * The real psf_memset (chunking loop around memset) is checked in C03 L0. */
#if defined (__CPROVER__) || defined (VERIF_CBMC)	/* native replay uses the real function */
#include "sfconfig.h"
#include "sndfile.h"
#include "common.h"
#include "verif.h"
#ifndef PSF_MEMSET_MAX
#define PSF_MEMSET_MAX 64
#endif
void *
psf_memset (void *s, int c, sf_count_t len)
{	sf_count_t i ;
	unsigned char *p = (unsigned char *) s ;
	if (len <= 0)
		return s ;
	VASSERT (V_W_OK (s, len), "psf_memset: destination writable for len bytes") ;
	VASSERT (len <= PSF_MEMSET_MAX, "psf_memset: len within the harness bound PSF_MEMSET_MAX") ;
#ifdef PSF_MEMSET_ELEM
	/* typed variant: every psf_memset in the harness' scope zero-fills whole elements of this
	** type (asserted); element stores avoid byte-granular updates of the BUF_UNION staging area */
	VASSERT (c == 0 && len % sizeof (PSF_MEMSET_ELEM) == 0, "psf_memset model (typed variant): zero-fill of whole elements") ;
	{	PSF_MEMSET_ELEM *e = (PSF_MEMSET_ELEM *) s ;
		for (i = 0 ; i < PSF_MEMSET_MAX / (sf_count_t) sizeof (PSF_MEMSET_ELEM) ; i++)
			if (i * (sf_count_t) sizeof (PSF_MEMSET_ELEM) < len)
				e [i] = 0 ;
		return s ;
		} ;
#else
	for (i = 0 ; i < PSF_MEMSET_MAX ; i++)
		if (i < len)
			p [i] = (unsigned char) c ;
	return s ;
#endif
}
#endif
