/* C14 H2 / C09 H3 / C16: the public open entry points sf_open_fd and
 * sf_open_virtual (src/sndfile.c) followed by the real psf_open_file on a
 * request it rejects before dispatching to a container (write mode without a
 * major format -> SFE_ZERO_MAJOR_FORMAT), i.e. a FAILED open through the real
 * error exit and the real psf_close. Obligations: NULL + global error set;
 * the library closes the caller's descriptor exactly when close_desc was true
 * and never any other descriptor number (E-memfile records what psf_fclose /
 * psf_close_rsrc close); an incomplete callback set is refused up front.
 */
#include "verif.h"
#include <stdlib.h>
#include <string.h>
#include "sndfile.c"
#include "memfile.h"

static int g_close_calls, g_closed_fd ;
int close (int fd) { g_close_calls ++ ; g_closed_fd = fd ; return 0 ; }

static sf_count_t v_len (void *u) { (void) u ; return 0 ; }
static sf_count_t v_seek (sf_count_t o, int w, void *u) { (void) o ; (void) w ; (void) u ; return 0 ; }
static sf_count_t v_rw (void *p, sf_count_t n, void *u) { (void) p ; (void) u ; return n ; }
static sf_count_t v_w (const void *p, sf_count_t n, void *u) { (void) p ; (void) u ; return n ; }
static sf_count_t v_tell (void *u) { (void) u ; return 0 ; }

int
main (void)
{	SF_INFO si ;
	SNDFILE *h ;
	memset (&si, 0, sizeof (si)) ;
	si.samplerate = 8000 ; si.channels = 1 ;
	si.format = SF_FORMAT_PCM_16 ;		/* no container: rejected by psf_open_file before any container code runs */
	mf [1].len = 0 ; mf [1].n_close = 0 ;
	mf_rsrc_closes = 0 ;
#if defined (SEL_VIRTUAL)
	{	SF_VIRTUAL_IO vio ;
		int nd_missing = nondet_int () ;
		int user ;
		vio.get_filelen = v_len ; vio.seek = v_seek ; vio.read = v_rw ; vio.write = v_w ; vio.tell = v_tell ;
		si.seekable = 1 ;
		if (nd_missing == 1) vio.get_filelen = NULL ;
		if (nd_missing == 3) vio.write = NULL ;
		if (nd_missing == 4) vio.seek = NULL ;
		h = sf_open_virtual (&vio, SFM_WRITE, &si, &user) ;
		VASSERT (h == NULL && sf_errno != 0, "failed open: NULL and the global error is set") ;
		if (nd_missing == 1 || nd_missing == 3 || nd_missing == 4)
			VASSERT (sf_errno == SFE_BAD_VIRTUAL_IO, "incomplete callback set is refused as such") ;
		VASSERT (mf [0].n_close == 0 && mf [1].n_close == 0 && g_close_calls == 0, "a virtual-I/O open never closes a descriptor") ;
		VASSERT (mf_rsrc_closes == 0, "a virtual-I/O handle holds no descriptor number: nothing (in particular not descriptor 0) is closed on its behalf") ;
	}
#elif defined (SEL_FD)
	{	int nd_close = nondet_int () ;
		int nd_sd2 = nondet_int () ;
		VASSUME (nd_close == 0 || nd_close == 1) ;
		if (nd_sd2 == 1) si.format = SF_FORMAT_SD2 | SF_FORMAT_PCM_16 ;
		h = sf_open_fd (1, SFM_WRITE, &si, nd_close) ;
		VASSERT (h == NULL && sf_errno != 0, "failed open: NULL and the global error is set") ;
		if (nd_sd2 == 1)
			VASSERT (g_close_calls == (nd_close ? 1 : 0) && (! nd_close || g_closed_fd == 1) && mf [1].n_close == 0, "refused SD2-by-descriptor closes the descriptor iff close_desc") ;
		else
			VASSERT (mf [1].n_close == (nd_close ? 1 : 0) && g_close_calls == 0, "failed open closes the caller's descriptor exactly when close_desc was true") ;
		VASSERT (mf [0].n_close == 0 && mf_rsrc_closes == 0, "no other descriptor is touched") ;
	}
#else
#error "select"
#endif
	WITNESS_END () ;
	return 0 ;
}
