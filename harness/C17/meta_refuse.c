/* C09 / C17: a REFUSED variable-size metadata set leaves nothing behind.
 * broadcast_var_set (src/broadcast.c) and cart_var_set (src/cart.c), called
 * the way sf_command (SFC_SET_BROADCAST_INFO / SFC_SET_CART_INFO) calls them,
 * with arguments they must refuse: a length field larger than the block
 * (datasize = the fixed part, length field any value >= 1) and a block as
 * large as the library's own 16K record. Obligations: SF_FALSE, the
 * documented error code, and NO (empty) record attached to the handle - a
 * later get must still report "no such metadata", the header writer must not
 * pick up an empty chunk.  (The accept path - 16 KiB copies - is the
 * metaset.* family, which gave no verdict within budget.)
 */
#include "verif.h"
#include <stdlib.h>
#include <string.h>
#include <stddef.h>
#include "sfconfig.h"
#include "sndfile.h"
#include "common.h"
#include "memfile.h"

static SF_PRIVATE g_psf ;

int
main (void)
{	SF_PRIVATE *psf = &g_psf ;
	uint32_t nd_lenfield = nondet_uint () ;
	int nd_mode = nondet_int (), ret ;

	{	static const SF_PRIVATE zero_psf ;
		*psf = zero_psf ;
	}
	VASSUME (nd_mode == SFM_WRITE || nd_mode == SFM_RDWR || nd_mode == SFM_READ) ;
	psf->file.mode = nd_mode ;
	psf->sf.channels = 2 ; psf->sf.samplerate = 44100 ; psf->sf.format = SF_FORMAT_WAV | SF_FORMAT_PCM_16 ;
#if defined (SEL_BEXT_SHORT)
	{	static SF_BROADCAST_INFO info ;
		VASSUME (nd_lenfield >= 1) ;
		info.coding_history_size = nd_lenfield ;
		ret = broadcast_var_set (psf, &info, offsetof (SF_BROADCAST_INFO, coding_history)) ;
		VASSERT (ret == SF_FALSE && psf->error == SFE_BAD_BROADCAST_INFO_SIZE, "length field beyond the block: refused with SFE_BAD_BROADCAST_INFO_SIZE") ;
		VASSERT (psf->broadcast_16k == NULL, "a refused SFC_SET_BROADCAST_INFO leaves no (empty) broadcast record on the handle") ;
	}
#elif defined (SEL_BEXT_BIG)
	{	static SF_BROADCAST_INFO_16K info ;
		info.coding_history_size = 0 ;
		ret = broadcast_var_set (psf, (SF_BROADCAST_INFO *) &info, sizeof (info)) ;
		VASSERT (ret == SF_FALSE && psf->error == SFE_BAD_BROADCAST_INFO_TOO_BIG, "block as large as the 16K record: refused with SFE_BAD_BROADCAST_INFO_TOO_BIG") ;
		VASSERT (psf->broadcast_16k == NULL, "a refused SFC_SET_BROADCAST_INFO leaves no (empty) broadcast record on the handle") ;
	}
#elif defined (SEL_CART_SHORT)
	{	static SF_CART_INFO info ;
		VASSUME (nd_lenfield >= 1) ;
		info.tag_text_size = nd_lenfield ;
		ret = cart_var_set (psf, &info, offsetof (SF_CART_INFO, tag_text)) ;
		VASSERT (ret == SF_FALSE && psf->error == SFE_BAD_CART_INFO_SIZE, "length field beyond the block: refused with SFE_BAD_CART_INFO_SIZE") ;
		VASSERT (psf->cart_16k == NULL, "a refused SFC_SET_CART_INFO leaves no (empty) cart record on the handle") ;
	}
#elif defined (SEL_CART_BIG)
	{	static SF_CART_INFO_16K info ;
		info.tag_text_size = 0 ;
		ret = cart_var_set (psf, (SF_CART_INFO *) &info, sizeof (info)) ;
		VASSERT (ret == SF_FALSE && psf->error == SFE_BAD_CART_INFO_TOO_BIG, "block as large as the 16K record: refused with SFE_BAD_CART_INFO_TOO_BIG") ;
		VASSERT (psf->cart_16k == NULL, "a refused SFC_SET_CART_INFO leaves no (empty) cart record on the handle") ;
	}
#else
#error "select"
#endif
	WITNESS_END () ;
	return 0 ;
}
