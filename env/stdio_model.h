#ifndef STDIO_MODEL_H
#define STDIO_MODEL_H
#ifndef SM_MAXIO
#define SM_MAXIO 64
#endif
typedef struct
{	int open, exists, n_fopen, n_fclose, n_remove ;
	long len, pos ;
	char name0 ;
} SM_STATE ;
extern SM_STATE sm ;
#endif
