/* C10 H1: sf_format_check agrees with what can really be opened for writing.
 * For ONE container and EVERY encoding word and endian flag (both symbolic:
 * any SF_FORMAT_SUBMASK value, any of the four endian options), 1 or 2
 * channels: whenever sf_format_check accepts the SF_INFO, the real X_open in
 * write mode succeeds, the open gate (validate_sfinfo / validate_psf) passes
 * and the four write entry points are installed.
 */
#include "verif.h"
#include <stdlib.h>
#include <string.h>
#include "sndfile.c"
#include CONTAINER_FILE
#include "memfile.h"
#include "preopen.h"

static SF_PRIVATE g_psf ;
static unsigned char g_hdr [MF_CAP + 264] ;

int
main (void)
{	SF_PRIVATE *psf = &g_psf ;
	SF_INFO si ;
	int nd_sub = nondet_int (), nd_end = nondet_int (), nd_ch = nondet_int (), rc ;

	memset (&si, 0, sizeof (si)) ;
	VASSUME ((nd_sub & ~SF_FORMAT_SUBMASK) == 0 && nd_sub >= 0 && nd_sub <= SUB_MAX) ;
#ifdef SUB_FIXED
	nd_sub = SUB_FIXED ;	/* chunked containers: encoding on the grid (their header writers do not finish with a symbolic one), endian flag symbolic */
#endif
	VASSUME (nd_end == SF_ENDIAN_FILE || nd_end == SF_ENDIAN_LITTLE || nd_end == SF_ENDIAN_BIG || nd_end == SF_ENDIAN_CPU) ;
#ifdef END_FIXED
	nd_end = END_FIXED ;
#endif
#ifdef CH_FIXED
	nd_ch = CH_FIXED ;
#endif
	VASSUME (nd_ch == 1 || nd_ch == 2) ;
	si.samplerate = 8000 ; si.channels = nd_ch ; si.format = CONTAINER | nd_sub | nd_end ;
	mf [0].len = 0 ; mf [0].pos = 0 ;
	if (sf_format_check (&si))
	{	verif_pre_open (psf, &si, SFM_WRITE, 0, g_hdr, sizeof (g_hdr)) ;
		rc = OPEN_FN (psf) ;
		VASSERT (rc == 0, "an SF_INFO that sf_format_check accepts opens for writing") ;
		VASSERT (validate_sfinfo (&psf->sf) && validate_psf (psf), "... and passes the open gate") ;
		VASSERT (psf->write_short != NULL && psf->write_int != NULL && psf->write_float != NULL && psf->write_double != NULL, "... with all four write entry points installed") ;
		} ;
	WITNESS_END () ;
	return 0 ;
}
