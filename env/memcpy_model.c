/* Byte-loop models of memcpy / memset for harnesses in which the library
 * copies a SYMBOLIC number of bytes between small typed arrays: CBMC's
 * built-in model (array_copy/array_replace on a variable-length object) lost
 * the last element of such a copy in the IMA staging harness (solver
 * counterexample not reproducible natively). Bounded by MEMCPY_MAX bytes
 * (harness bound, asserted). Only in the CBMC build. */
#if defined (__CPROVER__) || defined (VERIF_CBMC)
#include <stddef.h>
#include "verif.h"
#ifndef MEMCPY_MAX
#define MEMCPY_MAX 64
#endif
void *
memcpy (void *dst, const void *src, size_t n)
{	size_t i ;
	unsigned char *d = (unsigned char *) dst ;
	const unsigned char *s = (const unsigned char *) src ;
	VASSERT (n <= MEMCPY_MAX, "memcpy model: n within MEMCPY_MAX (harness bound)") ;
	if (n > 0)
	{	VASSERT (V_W_OK (dst, n), "memcpy destination region writeable") ;
		VASSERT (V_R_OK (src, n), "memcpy source region readable") ;
		} ;
	for (i = 0 ; i < MEMCPY_MAX ; i++)
	{	if (i >= n) break ;
		d [i] = s [i] ;
		} ;
	return dst ;
}
void *
memset (void *dst, int c, size_t n)
{	size_t i ;
	unsigned char *d = (unsigned char *) dst ;
	VASSERT (n <= MEMCPY_MAX, "memset model: n within MEMCPY_MAX (harness bound)") ;
	if (n > 0)
		VASSERT (V_W_OK (dst, n), "memset destination region writeable") ;
	for (i = 0 ; i < MEMCPY_MAX ; i++)
	{	if (i >= n) break ;
		d [i] = (unsigned char) c ;
		} ;
	return dst ;
}
#endif
