#!/usr/bin/env python3
import json, sys, glob
try:
    import jsonschema
except ImportError:
    import subprocess, os
    os.execvp("python3-vt", ["python3-vt"] + sys.argv)
jsonschema.validate(json.load(open('/verif/MANIFEST.json')), json.load(open('/root/.vp/MANIFEST.schema.json')))
print("manifest ok")
es = json.load(open('/root/.vp/EVIDENCE.schema.json'))
for f in sorted(glob.glob('/verif/evidence/*.json')):
    jsonschema.validate(json.load(open(f)), es)
    print("evidence ok", f)
