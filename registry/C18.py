from vf import H

HARNESSES = []
def calc_harnesses():
    out = []
    for cmd, allch in (("SFC_CALC_SIGNAL_MAX", 0), ("SFC_CALC_NORM_SIGNAL_MAX", 0), ("SFC_CALC_MAX_ALL_CHANNELS", 1), ("SFC_CALC_NORM_MAX_ALL_CHANNELS", 1)):
        for ch in (1, 2, 3):
            for probe in (0, 1):
                if probe and not (ch == 1 and cmd == "SFC_CALC_SIGNAL_MAX"):
                    continue
                d = {"CMD": cmd, "ALLCH": allch, "CH": ch, "FR_MAX": 4, "LIBSNDFILE_VERIF_BUFFER_LEN": 48, "MF_CAP": 16}
                if probe:
                    d["PROBE_calcrdwr"] = 1
                out.append(H("calc.%s.ch%d%s" % (cmd, ch, ".probe_calcrdwr" if probe else ""), "L4/calc.c", link=["common", "command"], stubs=["psf_log_printf"],
                             defines=d, unwind=14, checks="mem", include_env=("log_stub", "memfile"), timeout=300, kf=["calcrdwr"],
                             probe_for="calcrdwr" if probe else None,
                             functions=["sf_command", "psf_calc_signal_max", "psf_calc_max_all_channels"],
                             bounds="<= 4 frames, staging buffer 48 bytes (6 doubles: the scan loop crosses staging boundaries), every sample value, arbitrary I_open state in READ/RDWR mode; sf_read_double/sf_seek = their proved contracts"))
    return out
def peak_harnesses():
    out = []
    for tag, cfile, init, fmt, fw, ft in (("float32", "float32.c", "float32_init", "(SF_FORMAT_WAV|SF_FORMAT_FLOAT)", 4, "float"),
                                           ("double64", "double64.c", "double64_init", "(SF_FORMAT_WAV|SF_FORMAT_DOUBLE)", 8, "double")):
        for t, isf in (("short", 0), ("int", 0), ("float", 1), ("double", 1)):
            for ch in (1, 2):
                d = {"CODEC_FILE": '"%s"' % cfile, "CODEC_INIT": init, "FMT": fmt, "FW": fw, "FT": ft, "T": t, "TN": t, "NDT": t, "IS_FLOAT_T": isf, "CH": ch,
                     "MF_CAP": 3 * ch * fw + 4, "MF_MAXIO": 3 * ch * 8, "MF_NFILES": 2, "LIBSNDFILE_VERIF_BUFFER_LEN": 16}
                out.append(H("peak.%s.%s.ch%d" % (tag, t, ch), "C18/peak.c", link=["common"], stubs=["psf_log_printf", "psf_memset"], defines=d,
                             unwind=10, unwindset=["psf_fwrite.0:%d" % (3 * ch * 8 + 1), "psf_memset.0:65"] + ["main.%d:%d" % (i, 3 * ch * fw + 2) for i in range(12)],
                             checks="mem", solver="cadical", include_env=("log_stub", "memfile", "memset_model", "libm_model"), timeout=2400,
                             tiers=("quick", "thorough") if ((tag == "float32" and t == "float") or (tag == "double64" and t == "double")) else ("thorough",),
                             functions=[init, "%s_peak_update" % tag, "host_write_%s2%s" % (t[0], ft[0])],
                             bounds="<= 3 frames, %d channel(s), staging buffer 16 bytes (the write crosses staging boundaries), arbitrary prior peak state, split point symbolic, all sample values" % ch))
                if ch == 2:
                    d2 = dict(d); d2["CONCRETE_VALUES"] = 1
                    out.append(H("peak.%s.%s.ch2.fixed" % (tag, t), "C18/peak.c", link=["common"], stubs=["psf_log_printf", "psf_memset"], defines=d2,
                                 unwind=10, unwindset=["psf_fwrite.0:%d" % (3 * ch * 8 + 1), "psf_memset.0:65"] + ["main.%d:%d" % (i, 3 * ch * fw + 2) for i in range(12)],
                                 checks="mem", solver="cadical", include_env=("log_stub", "memfile", "memset_model", "libm_model"), timeout=1200,
                                 # measured: same-type writers 6..10 s, other writers into double64 100..150 s, other writers into float32 ~400 s
                                 tiers=(("quick", "thorough") if t == ft else ("thorough",)),
                                 functions=[init, "%s_peak_update" % tag, "host_write_%s2%s" % (t[0], ft[0])],
                                 bounds="<= 3 frames, 2 channels, staging buffer 16 bytes, arbitrary prior peak state, split point symbolic; sample values fixed (magnitudes growing towards the end)"))
    return out
HARNESSES += calc_harnesses()
HARNESSES += peak_harnesses()
META = {"assumptions": ["contracts of sf_read_double / sf_seek as proved by C05/C06 wrapper harnesses"], "outside": ["streams longer than 4 frames", "NaN samples"]}
