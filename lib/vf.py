#!/usr/bin/env python3
"""vf.py - core of the solver-based checking framework for libsndfile.

Everything here is mechanism: building goto binaries from /repo's *current*
working tree, running CBMC with stated bounds, classifying the verdicts,
replaying counterexamples natively and writing evidence. The properties
themselves live in /verif/harness/<Cxx>/*.c (assertions over the real code)
and /verif/registry/<Cxx>.py (configuration grid, bounds, stubs).
"""
import os, sys, json, time, hashlib, subprocess, shutil, threading, re, resource, tempfile, signal
from concurrent.futures import ThreadPoolExecutor, as_completed

VERIF = os.path.dirname(os.path.dirname(os.path.abspath(__file__)))
REPO = os.environ.get("VERIF_REPO", "/repo")
SRC = os.path.join(REPO, "src")
CACHE = os.path.join(VERIF, ".cache")
NCPU = int(os.environ.get("VERIF_JOBS", "16"))
MEM_LIMIT_GB = int(os.environ.get("VERIF_MEM_GB", "24"))

CHECK_PROFILES = {
    # memory safety only
    "mem": ["--bounds-check", "--pointer-check", "--div-by-zero-check"],
    # memory safety + arithmetic (the property is about integer arithmetic)
    "arith": ["--bounds-check", "--pointer-check", "--div-by-zero-check",
              "--signed-overflow-check", "--undefined-shift-check"],
    "arithconv": ["--bounds-check", "--pointer-check", "--div-by-zero-check",
                  "--signed-overflow-check", "--undefined-shift-check", "--conversion-check"],
    # assertions only (oracle comparisons; memory safety checked elsewhere)
    "assert": [],
    "leak": ["--bounds-check", "--pointer-check", "--div-by-zero-check", "--memory-leak-check"],
    # leak + array bounds without the pointer checks: for code that walks the variable-size SF_CUES block, where CBMC's
    # typed-access check fails on the (smaller than SF_CUES) allocation and turns everything behind it UNKNOWN
    "leak_np": ["--bounds-check", "--div-by-zero-check", "--memory-leak-check"],
}

# CBMC artefact (DESIGN 3.2): default argument promotion is not applied to the
# objects behind va_arg, so reads of promoted varargs are flagged. Filtered by
# description; nothing else is ever filtered.
VA_ARG_ARTEFACT = re.compile(r"\*\(\([^)]*\*\)\s*\*?\(?\s*(argptr|ap|\w*va_args?\w*|&?va_arg\w*)")


NATIVE_HOOK_UNITS = {"LIBSNDFILE_VERIF_MAX_HEADER": ["common"]}


def _load_measured():
    try:
        return json.load(open(os.path.join(VERIF, "registry", "measured_tiers.json")))
    except Exception:
        return {}


class H:
    """One harness configuration = one solver query (plus its witness)."""
    MEASURED = None

    # Tier placement from measurements (registry/measured_tiers.json, written from tools/thorough_smoke.py runs): a harness that
    # gave no verdict within the measurement cap is in no registered tier ("drop": stated as outside the claim), a fast one
    # that a registry had left thorough-only is also run in the quick tier.
    @property
    def tiers(self):
        if H.MEASURED is None:
            H.MEASURED = _load_measured()
        ov = H.MEASURED.get(self.name)
        if ov and self.probe_for is None:
            if ov["tier"] == "drop":
                return ()
            if ov["tier"] == "quick" and self._tiers:
                return ("quick", "thorough")
        return self._tiers

    @tiers.setter
    def tiers(self, v):
        self._tiers = tuple(v)

    def __init__(self, name, src, link=(), stubs=(), defines=None, unwind=1, unwindset=(),
                 checks="mem", extra=(), solver="default", timeout=600, tiers=("quick", "thorough"),
                 kf=(), bounds="", functions=(), witness="inline", objbits=10, fsa=None,
                 malloc_may_fail=False, native_units=None, note="", nondet_static=False,
                 include_env=("log_stub",), incs=(), probe_for=None):
        self.name = name
        self.src = src                      # relative to /verif/harness
        self.link = tuple(link)             # repo units (basename without .c, or sub/dir/x) linked as goto objects
        self.stubs = tuple(stubs)           # function bodies removed from linked units (harness/env supplies them)
        self.defines = dict(defines or {})
        self.unwind = unwind
        self.unwindset = tuple(unwindset)
        self.checks = checks
        self.extra = tuple(extra)
        self.solver = solver                # default | cadical | kissat | minisat2
        self.timeout = timeout
        self.probe_for = probe_for
        self.tiers = tuple(tiers)
        self.kf = tuple(kf)                 # known-finding keys this harness may exclude (define KF_<key>)
        self.bounds = bounds
        self.functions = tuple(functions)
        self.witness = witness              # inline | twin
        self.objbits = objbits
        self.fsa = fsa                      # --max-field-sensitivity-array-size
        self.malloc_may_fail = malloc_may_fail
        self.note = note
        self.nondet_static = nondet_static
        self.include_env = tuple(include_env)  # env models (files in /verif/env without .c) linked in
        self.incs = tuple(incs)
        self.probe_for = probe_for          # key of a known finding this harness demonstrates (expected to fail)

    def ident(self):
        return self.name


# ---------------------------------------------------------------------------

def sh(cmd, timeout=None, cwd=None, env=None, mem_gb=None):
    """Run a command, return (rc, stdout, stderr, wall, peak_rss_kb, timed_out)."""
    if mem_gb:
        cmd = ["prlimit", "--as=%d" % (mem_gb * (1 << 30))] + list(cmd)
    t0 = time.time()
    # NB: no preexec_fn (not fork-safe with threads); start_new_session gives us a killable group
    p = subprocess.Popen(cmd, stdout=subprocess.PIPE, stderr=subprocess.PIPE, cwd=cwd, env=env, start_new_session=True)
    timed_out = False
    try:
        out, err = p.communicate(timeout=timeout)
    except subprocess.TimeoutExpired:
        timed_out = True
        try:
            os.killpg(p.pid, signal.SIGKILL)
        except ProcessLookupError:
            pass
        out, err = p.communicate()
    wall = time.time() - t0
    try:
        ru = resource.getrusage(resource.RUSAGE_CHILDREN).ru_maxrss
    except Exception:
        ru = 0
    return p.returncode, out.decode("utf-8", "replace"), err.decode("utf-8", "replace"), wall, ru, timed_out


class Ctx:
    """Per-run build context. All products live in a scratch dir removed at exit."""

    def __init__(self, keep=False):
        base = os.environ.get("VERIF_SCRATCH_BASE", "/var/tmp")
        self.scratch = tempfile.mkdtemp(prefix="verif.", dir=base)
        self.keep = keep
        self.lock = threading.Lock()
        self.unit_futs = {}
        self.cfgdir = self._config_h()
        self.cc_base = ["-std=gnu99", "-DNDEBUG", "-DLIBSNDFILE_VERIF=1",
                        "-I" + os.path.join(REPO, "include"), "-I" + SRC, "-I" + self.cfgdir,
                        "-I" + os.path.join(VERIF, "harness", "include"),
                        "-I" + os.path.join(VERIF, "env"),
                        "-DVERIF_REPO_SRC=\"" + SRC + "\""]
        self.build_log = []

    def cleanup(self):
        if not self.keep:
            shutil.rmtree(self.scratch, ignore_errors=True)

    # -- config.h is regenerated from /repo's current cmake inputs; cached by content hash
    def _config_h(self):
        h = hashlib.sha256()
        inputs = [os.path.join(REPO, "CMakeLists.txt"), os.path.join(SRC, "config.h.cmake")]
        cm = os.path.join(REPO, "cmake")
        if os.path.isdir(cm):
            for f in sorted(os.listdir(cm)):
                inputs.append(os.path.join(cm, f))
        for f in inputs:
            if os.path.isfile(f):
                h.update(f.encode())
                h.update(open(f, "rb").read())
        h.update(b"postproc-v2")
        key = h.hexdigest()[:16]
        d = os.path.join(CACHE, "config", key)
        if os.path.isfile(os.path.join(d, "config.h")):
            return d
        tmp = os.path.join(self.scratch, "cfg")
        rc, out, err, *_ = sh(["cmake", "-G", "Ninja", "-S", REPO, "-B", tmp, "-DCMAKE_BUILD_TYPE=RelWithDebInfo",
                               "-DBUILD_TESTING=OFF", "-DBUILD_PROGRAMS=OFF", "-DBUILD_EXAMPLES=OFF",
                               "-DENABLE_PACKAGE_CONFIG=OFF", "-DENABLE_CPACK=OFF"], timeout=600)
        cfg = os.path.join(tmp, "src", "config.h")
        if rc != 0 or not os.path.isfile(cfg):
            raise RuntimeError("cmake configure failed: " + err[-2000:])
        os.makedirs(d, exist_ok=True)
        shutil.copy(cfg, os.path.join(d, "config.h.tmp"))
        # NB: goto-cc is run with -U__SSE2__: the solver encoding uses the portable lrint()/lrintf() variant
        # of psf_lrint*() (goto-cc needs ~20 s per TU to parse <immintrin.h>; _mm_cvtss_si32/_mm_cvtsd_si32
        # equal lrintf/lrint, round-to-nearest-even, wherever the result fits an int). Native replay keeps
        # the real SSE2 setting.
        os.replace(os.path.join(d, "config.h.tmp"), os.path.join(d, "config.h"))
        shutil.rmtree(tmp, ignore_errors=True)
        return d

    # -- native (ASan+UBSan, -O0) static archive of the whole library, for replay only
    def native_lib(self, cc, base):
        with self.lock:
            fut = self.unit_futs.get("__native_lib__")
            if fut is None:
                fut = _Lazy(lambda: self._build_native_lib(cc, base))
                self.unit_futs["__native_lib__"] = fut
        return fut.get()

    def _build_native_lib(self, cc, base):
        d = os.path.join(self.scratch, "native")
        os.makedirs(d, exist_ok=True)
        srcs = repo_lib_sources()
        def comp(rel):
            o = os.path.join(d, rel.replace("/", "_")[:-2] + ".o")
            sub = os.path.dirname(rel)
            inc = ["-I" + os.path.join(SRC, sub)] if sub else []
            rc, out, err, *_ = sh(cc + base + inc + ["-c", os.path.join(SRC, rel), "-o", o], timeout=600)
            if rc != 0:
                raise BuildError("native compile failed for %s: %s" % (rel, err[-1500:]))
            return o
        with ThreadPoolExecutor(max_workers=NCPU) as ex:
            objs = list(ex.map(comp, srcs))
        lib = os.path.join(d, "libsnd_native.a")
        rc, out, err, *_ = sh(["ar", "rcs", lib] + objs, timeout=120)
        if rc != 0:
            raise BuildError("ar failed: " + err[-500:])
        return lib

    # -- many units: compile in parallel, link into one goto object, remove stubbed bodies once
    def lib_obj(self, units, stubs, udefs=()):
        units = tuple(units)
        stubs = tuple(sorted(stubs))
        udefs = tuple(sorted(udefs))
        key = ("lib", units, stubs, udefs)
        with self.lock:
            fut = self.unit_futs.get(key)
            if fut is None:
                fut = _Lazy(lambda: self._build_lib(units, stubs, udefs))
                self.unit_futs[key] = fut
        return fut.get()

    def _build_lib(self, units, stubs, udefs):
        with ThreadPoolExecutor(max_workers=NCPU) as ex:
            raws = list(ex.map(lambda u: self._build_unit(u, (), udefs), units))
        tag = hashlib.md5(("|".join(units) + "#" + ",".join(stubs) + "#" + ",".join(udefs)).encode()).hexdigest()[:12]
        linked = os.path.join(self.scratch, "lib_" + tag + "_raw.o")
        rc, out, err, *_ = sh(["goto-cc"] + raws + ["-o", linked], timeout=900)
        if rc != 0:
            raise BuildError("goto-cc link of library units failed:\n" + (out + err)[-3000:])
        if not stubs:
            return linked
        obj = os.path.join(self.scratch, "lib_" + tag + ".o")
        cmd = ["goto-instrument"]
        for s_ in stubs:
            cmd += ["--remove-function-body", s_]
        rc, out, err, *_ = sh(cmd + [linked, obj], timeout=900)
        if rc != 0:
            raise BuildError("goto-instrument failed for library: " + (out + err)[-2000:])
        return obj

    # -- goto objects of repo units, with the given function bodies removed
    def unit_obj(self, unit, stubs, udefs=()):
        stubs = tuple(sorted(stubs))
        udefs = tuple(sorted(udefs))
        key = (unit, stubs, udefs)
        with self.lock:
            fut = self.unit_futs.get(key)
            if fut is None:
                fut = _Lazy(lambda: self._build_unit(unit, stubs, udefs))
                self.unit_futs[key] = fut
        return fut.get()

    def _encoding_patch(self, unit, srcf):
        """Source-level adaptation of the solver encoding (regenerated from /repo on every run):
        psf_binheader_readf() reads its integer count arguments with va_arg (argptr, size_t) although
        every caller passes an int; CBMC does not model the x86-64 register promotion, so the upper 32
        bits would be unconstrained. The CBMC build reads them as int (the function truncates them to
        int anyway). Native replay uses the unmodified file."""
        if unit != "common":
            return srcf
        txt = open(srcf).read()
        a = txt.find("psf_binheader_readf (SF_PRIVATE *psf, char const *format, ...)")
        b = txt.find("} /* psf_binheader_readf */")
        if a < 0 or b < 0:
            return srcf
        body = txt[a:b].replace("va_arg (argptr, size_t)", "(size_t) va_arg (argptr, int)")
        out = os.path.join(self.scratch, "common_va_int.c")
        with self.lock:
            if not os.path.isfile(out):
                with open(out + ".tmp", "w") as f:
                    f.write('#line 1 "%s"\n' % srcf)
                    f.write(txt[:a] + body + txt[b:])
                os.replace(out + ".tmp", out)
        return out

    def _build_unit(self, unit, stubs, udefs=()):
        srcf = os.path.join(SRC, unit + ".c")
        dtag = hashlib.md5(",".join(udefs).encode()).hexdigest()[:6]
        tag = hashlib.md5((unit + "|" + ",".join(stubs) + "|" + ",".join(udefs)).encode()).hexdigest()[:10]
        obj = os.path.join(self.scratch, "u_" + unit.replace("/", "_") + "_" + tag + ".o")
        raw = os.path.join(self.scratch, "u_" + unit.replace("/", "_") + "_" + dtag + "_raw.o")
        with self.lock:
            rl = self.unit_futs.setdefault(("rawlock", raw), threading.Lock())
        with rl:
          need_raw = not os.path.isfile(raw + ".done")
          if need_raw:
            inc = []
            sub = os.path.dirname(unit)
            if sub:
                inc = ["-I" + os.path.join(SRC, sub)]
            srcf = self._encoding_patch(unit, srcf)
            rc, out, err, *_ = sh(["goto-cc", "-DVERIF_CBMC=1", "-DLIBSNDFILE_VERIF_PROMOTE_VARARGS=1", "-U__SSE2__"] + self.cc_base + inc + ["-D" + d for d in udefs] + ["-c", srcf, "-o", raw], timeout=600)
            if rc != 0:
                raise BuildError("goto-cc failed for %s:\n%s" % (unit, (out + err)[-3000:]))
            open(raw + ".done", "w").close()
        if True:
            pass
        if not stubs:
            return raw
        cmd = ["goto-instrument"]
        for s in stubs:
            cmd += ["--remove-function-body", s]
        rc, out, err, *_ = sh(cmd + [raw, obj], timeout=600)
        if rc != 0:
            raise BuildError("goto-instrument failed for %s:\n%s" % (unit, (out + err)[-3000:]))
        return obj


class BuildError(Exception):
    pass


def repo_lib_sources():
    out = []
    for d in ("", "ALAC", "G72x", "GSM610"):
        dd = os.path.join(SRC, d)
        for f in sorted(os.listdir(dd)):
            if not f.endswith(".c") or f.startswith("test_") or f in ("g72x_test.c", "windows.c", "macos.c", "new.c"):
                continue
            out.append(os.path.join(d, f) if d else f)
    return out


class _Lazy:
    def __init__(self, fn):
        self.fn = fn
        self.lock = threading.Lock()
        self.done = False
        self.val = None
        self.exc = None

    def get(self):
        with self.lock:
            if not self.done:
                try:
                    self.val = self.fn()
                except Exception as e:
                    self.exc = e
                self.done = True
        if self.exc:
            raise self.exc
        return self.val


# ---------------------------------------------------------------------------

def build_harness(ctx, h, extra_defines=()):
    tag = hashlib.md5((h.name + "|" + ",".join(extra_defines)).encode()).hexdigest()[:10]
    out = os.path.join(ctx.scratch, "h_" + re.sub(r"[^A-Za-z0-9_]", "_", h.name)[:60] + "_" + tag + ".gb")
    srcs = [os.path.join(VERIF, "harness", h.src)]
    for e in h.include_env:
        srcs.append(os.path.join(VERIF, "env", e + ".c"))
    # hook defines (LIBSNDFILE_VERIF_*) must reach the linked repo units as well
    udefs = ["%s=%s" % (k, v) for k, v in h.defines.items() if k.startswith("LIBSNDFILE_VERIF")]
    if len(h.link) > 6:
        objs = [ctx.lib_obj(h.link, h.stubs, udefs)]
    else:
        objs = [ctx.unit_obj(u, h.stubs, udefs) for u in h.link]
    defs = ["-D%s=%s" % (k, v) if v is not None else "-D%s" % k for k, v in h.defines.items()]
    defs += ["-D" + d for d in extra_defines]
    if os.environ.get("VERIF_EXTRA_DEFINES"):      # debugging aid only
        defs += ["-D" + d for d in os.environ["VERIF_EXTRA_DEFINES"].split(",")]
    incs = ["-I" + os.path.join(SRC, i) for i in h.incs]
    cmd = ["goto-cc", "-DVERIF_CBMC=1", "-DLIBSNDFILE_VERIF_PROMOTE_VARARGS=1", "-U__SSE2__"] + ctx.cc_base + incs + defs + srcs + objs + ["-o", out]
    rc, o, e, wall, *_ = sh(cmd, timeout=900)
    if rc != 0:
        raise BuildError("goto-cc failed for harness %s:\n%s" % (h.name, (o + e)[-4000:]))
    return out, cmd


def cbmc_cmd(h, gb, trace=False, prop=None):
    cmd = ["cbmc", gb, "--function", "main", "--no-standard-checks"] + CHECK_PROFILES[h.checks]
    cmd += ["--unwind", str(h.unwind), "--unwinding-assertions", "--drop-unused-functions"]
    if h.unwindset:
        cmd += ["--unwindset", ",".join(h.unwindset)]
    if not h.malloc_may_fail:
        cmd += ["--no-malloc-may-fail"]
    else:
        cmd += ["--malloc-may-fail", "--malloc-fail-null"]
    if h.objbits:
        cmd += ["--object-bits", str(h.objbits)]
    if h.fsa:
        cmd += ["--max-field-sensitivity-array-size", str(h.fsa)]
    if h.nondet_static:
        cmd += ["--nondet-static"]
    if h.solver == "kissat":
        cmd += ["--external-sat-solver", "kissat"]
    elif h.solver in ("cadical", "minisat2"):
        cmd += ["--sat-solver", h.solver]
    if "--no-slice" not in h.extra:
        cmd += ["--slice-formula"]     # sound: drops assignments no obligation depends on (and keeps bit-blasting small)
    cmd += [e for e in h.extra if e != "--no-slice"]
    if trace:
        cmd += ["--trace"]
    if prop:
        cmd += ["--property", prop]
    cmd += ["--json-ui"]
    return cmd


def parse_cbmc_json(text):
    """Returns dict(results=[...], status=..., stats={...}, errors=[...])."""
    res = {"results": [], "status": None, "stats": {}, "errors": [], "messages": []}
    try:
        data = json.loads(text)
    except Exception:
        # truncated output (killed): salvage nothing
        res["errors"].append("unparseable cbmc output")
        return res
    for m in data:
        if "result" in m:
            res["results"] = m["result"]
        elif "cProverStatus" in m:
            res["status"] = m["cProverStatus"]
        elif "messageText" in m:
            t = m["messageText"]
            if m.get("messageType") == "ERROR":
                res["errors"].append(t)
            mm = re.search(r"(\d+) variables, (\d+) clauses", t)
            if mm:
                res["stats"]["variables"] = int(mm.group(1))
                res["stats"]["clauses"] = int(mm.group(2))
            mm = re.search(r"size of program expression: (\d+) steps", t)
            if mm:
                res["stats"]["steps"] = int(mm.group(1))
            mm = re.search(r"Generated (\d+) VCC\(s\), (\d+) remaining", t)
            if mm:
                res["stats"]["vccs"] = int(mm.group(1))
                res["stats"]["vccs_remaining"] = int(mm.group(2))
            mm = re.search(r"Runtime Solver: ([0-9.e+-]+)s", t)
            if mm:
                res["stats"]["solver_s"] = res["stats"].get("solver_s", 0.0) + float(mm.group(1))
            mm = re.search(r"Runtime Symex: ([0-9.e+-]+)s", t)
            if mm:
                res["stats"]["symex_s"] = float(mm.group(1))
    return res


def is_witness(r):
    return r.get("description", "").startswith("WITNESS")


# Second documented artefact: SF_CUES is declared with 100 cue points but psf_cues_alloc () allocates only the
# cue_count entries in use (variable-size struct idiom). CBMC reports every psf->cues->cue_points access as
# "outside object bounds" of the full struct type although the accessed element lies inside the allocation
# (index < cue_count is checked by the harness assertions and by ASan in replay). Triage by reading: benign.
CUES_ARTEFACT = re.compile(r"pointer outside object bounds in \w+->cues->cue_points")


def is_artefact(r):
    d = r.get("description", "")
    if CUES_ARTEFACT.search(d):
        return True
    if "pointer outside object bounds" in d or "pointer outside dynamic object" in d or "dead object" in d or "pointer NULL" in d or "pointer invalid" in d or "deallocated dynamic object" in d or "invalid integer address" in d or "pointer uninitialized" in d:
        if VA_ARG_ARTEFACT.search(d):
            return True
    return False


def is_harness_bound(r):
    """assertions of the environment models that only say 'the harness' stated bound was exceeded'"""
    return "(harness bound)" in r.get("description", "")


def is_unwind(r):
    return "unwinding assertion" in r.get("description", "") or ".unwind." in r.get("property", "") or "recursion unwinding" in r.get("description", "") or is_harness_bound(r)


def extract_values(trace):
    """nd_* scalar assignments in trace order -> list of (width, hexbits, lhs, data, file, line)."""
    vals = []
    for s in trace:
        if s.get("stepType") != "assignment" or s.get("hidden"):
            continue
        lhs = s.get("lhs", "")
        base = re.split(r"[\[.]", lhs)[0]
        if not base.startswith("nd_") or base == "nd_i_":
            continue
        v = s.get("value", {})
        b = v.get("binary")
        if b is None:
            continue
        sl = s.get("sourceLocation") or {}
        vals.append((len(b), "%x" % int(b, 2), lhs.replace(" ", ""), v.get("data"), os.path.basename(sl.get("file", "?")), int(sl.get("line", 0) or 0)))
    return vals


# ---------------------------------------------------------------------------
# native replay

def native_replay(ctx, h, values, outdir, extra_defines=(), expect_desc=None):
    """Compile the same harness natively with ASan+UBSan against the real
    sources and run it on the solver's values. Returns (reproduced, info)."""
    os.makedirs(outdir, exist_ok=True)
    valf = os.path.join(outdir, "values.txt")
    with open(valf, "w") as f:
        for v in values:
            w, hx, lhs, data, fl, ln = (list(v) + ["?", 0])[:6]
            f.write("%s %d %d %s %s\n" % (fl, ln, w, hx, lhs))
    with open(os.path.join(outdir, "values_named.txt"), "w") as f:
        for v in values:
            w, hx, lhs, data = v[:4]
            f.write("%s = %s (0x%s, %d bits)\n" % (lhs, data, hx, w))
    exe = os.path.join(ctx.scratch, "replay_" + hashlib.md5(h.name.encode()).hexdigest()[:10])
    cc = ["gcc", "-g", "-O0", "-fsanitize=address,undefined", "-fno-sanitize-recover=undefined",
          "-fno-omit-frame-pointer", "-fno-inline", "-w"]
    base = [a for a in ctx.cc_base]
    defs = ["-D%s=%s" % (k, v) if v is not None else "-D%s" % k for k, v in h.defines.items()]
    defs += ["-D" + d for d in extra_defines] + ["-DREPLAY=1"]
    incs = ["-I" + os.path.join(SRC, i) for i in h.incs]
    try:
        objs = [ctx.native_lib(cc, base)]
    except BuildError as e:
        return False, {"error": str(e)[-2000:]}
    srcs = [os.path.join(VERIF, "harness", h.src), os.path.join(VERIF, "env", "replay_rt.c")]
    for e in h.include_env:
        srcs.append(os.path.join(VERIF, "env", e + ".c"))
    # hooks that change the behaviour of a LINKED unit: that unit is recompiled with the hook for the replay (it precedes the archive)
    for hook, units in NATIVE_HOOK_UNITS.items():
        if hook in h.defines:
            srcs += [os.path.join(SRC, u + ".c") for u in units if u in h.link]
    # harness definitions (included units, stubs) come first and win over the archive's
    cmd = cc + base + incs + defs + srcs + ["-Wl,--allow-multiple-definition"] + objs + ["-lm", "-o", exe]
    rc, out, err, *_ = sh(cmd, timeout=900)
    if rc != 0:
        return False, {"error": "native harness compile failed: " + err[-3000:], "cmd": " ".join(cmd)}
    env = dict(os.environ)
    env["VERIF_REPLAY_VALUES"] = valf
    env["ASAN_OPTIONS"] = "exitcode=78:detect_leaks=%d:allocator_may_return_null=1:abort_on_error=0" % (1 if h.checks.startswith("leak") else 0)
    env["UBSAN_OPTIONS"] = "print_stacktrace=1:halt_on_error=1:exitcode=76"
    rc, out, err, wall, _, to = sh([exe], timeout=20, env=env)
    info = {"rc": rc, "timed_out": to, "stderr_tail": err[-1500:], "cmd": " ".join(cmd)}
    with open(os.path.join(outdir, "native_stderr.txt"), "w") as f:
        f.write(err)
    if to:
        info["kind"] = "hang"
        return True, info
    if rc in (77,):
        info["kind"] = "assertion"
        m = re.search(r"REPLAY-FAIL: (.*) \(", err)
        got = m.group(1).strip() if m else ""
        info["native_assertion"] = got
        if "REPLAY-ASSUME-FALSE" in err and expect_desc is not None and got != expect_desc.strip():
            info["kind"] = "assertion-after-false-assumption"
            return False, info
        return True, info
    if rc in (78, 76) or rc < 0 or "AddressSanitizer" in err or "runtime error" in err:
        if rc == 79:
            return False, info
        info["kind"] = "sanitizer"
        return True, info
    return False, info


# ---------------------------------------------------------------------------

class HResult:
    def __init__(self, h):
        self.h = h
        self.status = "error"       # pass | violation | unconfirmed | known | inconclusive | vacuous | error
        self.detail = ""
        self.n_props = 0
        self.n_ok = 0
        self.failed = []            # list of dicts
        self.known = []             # known-finding keys observed
        self.witness_reached = False
        self.wall = 0.0
        self.solver_s = 0.0
        self.rss_kb = 0
        self.stats = {}
        self.cmd = ""
        self.queries = 0
        self.replays = []
        self.unwind_ok = True
        self.artefacts = 0


def run_one(ctx, h, known_keys, replay_root):
    """Run one harness: returns HResult."""
    r = HResult(h)
    t0 = time.time()
    if os.environ.get("VERIF_TIMEOUT_CAP"):      # smoke-testing aid: caps every solver run (inconclusive, never success)
        import copy as _cp
        h = _cp.copy(h)
        h.timeout = min(h.timeout, int(os.environ["VERIF_TIMEOUT_CAP"]))
        r.h = h
    try:
        # known-finding exclusion: only findings listed in known_findings.txt are excluded
        kf_active = [k for k in h.kf if k in known_keys and k != h.probe_for]
        excl = ["KF_" + k for k in kf_active]
        if h.witness == "twin":
            gb, _ = build_harness(ctx, h, extra_defines=excl + ["NO_WITNESS"])
        else:
            gb, _ = build_harness(ctx, h, extra_defines=excl)
        cmd = cbmc_cmd(h, gb)
        r.cmd = " ".join(cmd[:1] + ["<harness.gb>"] + cmd[2:])
        rc, out, err, wall, rss, to = sh(cmd, timeout=h.timeout, mem_gb=MEM_LIMIT_GB)
        r.queries += 1
        r.rss_kb = rss
        if to:
            r.status = "inconclusive"
            r.detail = "solver timeout after %ds" % h.timeout
            return r
        pr = parse_cbmc_json(out)
        r.stats = pr["stats"]
        r.solver_s = pr["stats"].get("solver_s", 0.0)
        if not pr["results"]:
            blob = "; ".join(pr["errors"]) + err
            oom = rc in (-9, 137) or "ut of memory" in blob or "bad_alloc" in blob
            r.status = "inconclusive" if oom else "error"       # a resource limit is never success and never a machinery fault
            r.detail = ("memory limit reached: " if oom else "") + "no results from cbmc (rc=%s): %s %s" % (rc, "; ".join(pr["errors"])[:800], err[-800:])
            return r
        failed = []
        unknown = []
        for p in pr["results"]:
            if is_witness(p):
                if p["status"] == "FAILURE":
                    r.witness_reached = True
                continue
            r.n_props += 1
            if p["status"] == "SUCCESS":
                r.n_ok += 1
            elif is_artefact(p):
                r.artefacts += 1
                r.n_props -= 1
            elif p["status"] == "FAILURE":
                failed.append(p)
            else:
                unknown.append(p)    # UNKNOWN: lies behind a failed unwinding assertion
        if h.witness == "twin":
            gbw, _ = build_harness(ctx, h, extra_defines=excl + ["WITNESS_ONLY"])
            # find witness property id
            import copy as _copy
            hw = _copy.copy(h)
            hw.checks = "assert"
            hw.solver = "default"
            cmdw = cbmc_cmd(hw, gbw)
            # only the witness assertion is compiled in: any path to the end of the harness satisfies the query
            rc2, out2, err2, *_rest = sh(cmdw, timeout=h.timeout, mem_gb=MEM_LIMIT_GB)
            r.queries += 1
            try:
                d2 = json.loads(out2)
                for m in d2:
                    if "result" in m:
                        for p in m["result"]:
                            if is_witness(p) and p["status"] == "FAILURE":
                                r.witness_reached = True
            except Exception:
                pass
        if failed:
            # obtain traces for each failed property (bounded number), replay natively
            r.failed = []
            confirmed = False
            unconfirmed = False
            only_unwind = all(is_unwind(p) for p in failed)
            failed.sort(key=lambda p: 1 if is_unwind(p) else 0)
            for p in failed[:4]:
                entry = {"property": p["property"], "description": p.get("description", ""),
                         "location": _loc(p)}
                # (unwinding assertions get their ids during symbolic execution: --property does not know them, so the
                # trace is taken from an all-properties run)
                cmdt = cbmc_cmd(h, gb, trace=True, prop=None if is_unwind(p) else p["property"])
                rc3, out3, err3, w3, _, to3 = sh(cmdt, timeout=h.timeout, mem_gb=MEM_LIMIT_GB)
                r.queries += 1
                vals = []
                if not to3:
                    try:
                        for m in json.loads(out3):
                            if "result" in m:
                                for q in m["result"]:
                                    if q["property"] == p["property"] and "trace" in q:
                                        vals = extract_values(q["trace"])
                    except Exception:
                        pass
                rd = os.path.join(replay_root, re.sub(r"[^A-Za-z0-9_.-]", "_", h.name + "." + p["property"]))
                ok, info = native_replay(ctx, h, vals, rd, extra_defines=excl,
                                         expect_desc=p.get("description") if ".assertion." in p["property"] else None)
                if (not ok) and "compile failed" in str(info.get("error", "")):
                    # the replay harness does not build natively: a defect of the machinery, never a verdict
                    r.status = "error"
                    r.detail = "native replay build failed: " + str(info.get("error"))[-600:]
                    return r
                entry["replay_dir"] = rd
                entry["reproduced"] = ok
                entry["replay_info"] = {k: info.get(k) for k in ("rc", "kind", "timed_out", "error")}
                entry["values"] = ["%s=%s" % (v[2], v[3]) for v in vals[:40]]
                with open(os.path.join(rd, "replay.json"), "w") as f:
                    json.dump({"harness": h.name, "src": h.src, "defines": h.defines, "property": p["property"],
                               "description": p.get("description", ""), "location": _loc(p),
                               "reproduced": ok, "info": info, "values": [list(v) for v in vals]}, f, indent=1)
                if is_unwind(p):
                    # bound exceeded: violation only if the native run hangs (DESIGN 3.6)
                    if ok and info.get("kind") == "hang" and not is_harness_bound(p):
                        confirmed = True
                        entry["class"] = "hang"
                    else:
                        entry["class"] = "bound-too-small-or-longer-loop"
                        entry["reproduced"] = False
                        unconfirmed = True
                elif ok:
                    confirmed = True
                else:
                    unconfirmed = True
                r.failed.append(entry)
            if confirmed:
                r.status = "violation"
            elif only_unwind:
                r.status = "inconclusive"
                r.detail = "unwinding bound exceeded but native run terminates"
            else:
                r.status = "unconfirmed"
            return r
        if unknown:
            r.status = "inconclusive"
            nerr = sum(1 for p in unknown if p["status"] == "ERROR")
            if nerr:
                r.detail = "no verdict for %d obligations (solver status ERROR: memory limit or solver failure), e.g. %s" % (len(unknown), unknown[0].get("description", "")[:100])
            else:
                r.detail = "%d obligations UNKNOWN (behind an unwinding bound): %s" % (len(unknown), unknown[0].get("description", "")[:120])
            return r
        if not r.witness_reached:
            r.status = "vacuous"
            r.detail = "witness assertion unreachable"
            return r
        r.status = "pass"
        return r
    except BuildError as e:
        r.status = "error"
        r.detail = str(e)[-3000:]
        return r
    except Exception as e:
        import traceback
        r.status = "error"
        r.detail = "exception: " + traceback.format_exc()[-2000:]
        return r
    finally:
        r.wall = time.time() - t0


def _loc(p):
    sl = p.get("sourceLocation") or {}
    return "%s:%s %s" % (sl.get("file", "?"), sl.get("line", "?"), sl.get("function", ""))


def load_known_findings():
    keys = {}
    fixed = []
    path = os.path.join(VERIF, "known_findings.txt")
    if os.path.isfile(path):
        for line in open(path):
            line = line.strip()
            if line.startswith("finding:"):
                m = re.match(r"finding:\s+property=(\S+)\s+key=(\S+)\s+(.*)", line)
                if m:
                    keys[m.group(2)] = (m.group(1), m.group(3))
            elif line.startswith("fixed:"):
                fixed.append(line)
    return keys, fixed
