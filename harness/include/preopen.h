/* preopen.h - the state psf_open_file (src/sndfile.c:3046-3190) establishes
 * before it dispatches to a container's X_open, reproduced field by field so
 * that a harness can drive X_open directly (R1). The gate psf_open_file
 * applies after X_open returns (validate_sfinfo / validate_psf) is applied by
 * the harnesses through the real static functions. */
#ifndef PREOPEN_H
#define PREOPEN_H
static void
verif_pre_open (SF_PRIVATE *psf, const SF_INFO *sfinfo, int mode, int fd, unsigned char *hdrbuf, int hdrlen)
{	static const SF_PRIVATE zero_psf ;
	*psf = zero_psf ;	/* (struct assignment, not memset: keeps every field a constant for the symbolic executor) */
	psf->header.ptr = hdrbuf ;
	psf->header.len = hdrlen ;
	psf->file.filedes = fd ;
	psf->rsrc.filedes = -1 ;
	psf->file.savedes = -1 ;
	psf->file.mode = mode ;
	if (mode != SFM_READ || SF_CONTAINER (sfinfo->format) == SF_FORMAT_RAW)
		memcpy (&psf->sf, sfinfo, sizeof (SF_INFO)) ;
	psf->Magick = SNDFILE_MAGICK ;
	psf->norm_float = SF_TRUE ;
	psf->norm_double = SF_TRUE ;
	psf->dataoffset = -1 ;
	psf->datalength = -1 ;
	psf->read_current = -1 ;
	psf->write_current = -1 ;
	psf->auto_header = SF_FALSE ;
	psf->rwf_endian = SF_ENDIAN_LITTLE ;
	psf->seek = psf_default_seek ;
	psf->float_int_mult = 0 ;
	psf->float_max = -1.0 ;
	psf->unique_id = 12345 ;
	psf->sf.sections = 1 ;
	psf->is_pipe = SF_FALSE ;
	psf->sf.seekable = SF_TRUE ;
	psf->filelength = psf_get_filelen (psf) ;
	psf->last_op = mode ;
	switch (SF_CODEC (psf->sf.format))
	{	case SF_FORMAT_PCM_S8 : case SF_FORMAT_PCM_U8 : case SF_FORMAT_ULAW : case SF_FORMAT_ALAW : case SF_FORMAT_DPCM_8 :
			psf->bytewidth = 1 ; break ;
		case SF_FORMAT_PCM_16 : case SF_FORMAT_DPCM_16 :
			psf->bytewidth = 2 ; break ;
		case SF_FORMAT_PCM_24 :
			psf->bytewidth = 3 ; break ;
		case SF_FORMAT_PCM_32 : case SF_FORMAT_FLOAT :
			psf->bytewidth = 4 ; break ;
		case SF_FORMAT_DOUBLE :
			psf->bytewidth = 8 ; break ;
		} ;
}
#endif
