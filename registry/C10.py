from vf import H

HARNESSES = []
_c = dict(link=["common"], stubs=["psf_log_printf"], include_env=("log_stub", "memfile", "snprintf_model"), timeout=300, checks="mem")
def table_harnesses():
    return [
        H("tables.index", "C10/tables.c", defines={"SEL_INDEX": 1, "SNP_MAX": 90}, unwind=40,
          functions=["psf_get_format_simple", "psf_get_format_major", "psf_get_format_subtype", "psf_get_format_info", "sf_format_check", "sf_command"],
          bounds="all int index pairs (i, j) into the three enumeration tables incl. out of range", **_c),
        H("tables.usable", "C10/tables.c", defines={"SEL_USABLE": 1, "SNP_MAX": 90}, unwind=40,
          functions=["sf_format_check", "major_formats[]", "subtype_formats[]"], bounds="symbolic major index x all subtypes x channels {1,2}", **_c),
        H("tables.checkdom", "C10/tables.c", defines={"SEL_CHECKDOM": 1, "SNP_MAX": 90}, unwind=4,
          functions=["sf_format_check"], bounds="every 32-bit format word, channel count and sample rate", **_c),
    ]
HARNESSES += table_harnesses()
META = {"assumptions": [], "outside": ["accepted => the container's open really succeeds and writes (H1): see DESIGN, registered separately when built"]}
