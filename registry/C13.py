from vf import H

HARNESSES = []
_fn = ["psf_save_write_chunk", "psf_store_read_chunk", "psf_store_read_chunk_u32", "psf_get_chunk_iterator", "psf_next_chunk_iterator",
       "psf_find_read_chunk_str", "psf_find_read_chunk_m32", "psf_find_read_chunk_iterator", "psf_memdup"]
_common = dict(link=["common"], stubs=["psf_log_printf"], include_env=("log_stub", "snprintf_model"), functions=_fn, timeout=300)
for c0 in (0, 20, 31, 47):
    HARNESSES.append(H("chunk.wgrow.count%d" % c0, "C13/chunktab.c", defines={"SEL_WGROW": 1, "COUNT0": c0, "SNP_MAX": 8}, unwind=10, checks="mem",
                       bounds="table capacity %d (a reachable capacity step), fill level symbolic 0..capacity, id bytes and payload length symbolic" % c0, **_common))
    HARNESSES.append(H("chunk.rgrow.count%d" % c0, "C13/chunktab.c", defines={"SEL_RGROW": 1, "COUNT0": c0, "SNP_MAX": 8}, unwind=c0 * 3 // 2 + 6, checks="mem",
                       bounds="table capacity %d, fill level symbolic, marker/offset/len symbolic" % c0, **_common))
HARNESSES.append(H("chunk.seq.33", "C13/chunktab.c", defines={"SEL_WSEQ": 1, "NCALLS": 33, "SNP_MAX": 8}, unwind=35, checks="mem",
                   bounds="33 calls from the empty table (crosses capacity steps 20 and 31)", **_common))
HARNESSES.append(H("chunk.seq.73", "C13/chunktab.c", defines={"SEL_WSEQ": 1, "NCALLS": 73, "SNP_MAX": 8}, unwind=75, checks="mem", tiers=("thorough",),
                   bounds="73 calls from the empty table (crosses 20, 31, 47, 71)", **_common))
for abandon in (0, 1):
    pass
HARNESSES.append(H("chunk.iter", "C13/chunktab.c", defines={"SEL_ITER": 1, "NENT": 5, "SNP_MAX": 8}, unwind=8, checks="mem",
                   bounds="table of <= 5 entries with symbolic hashes (duplicates allowed), by-id or full iteration, optionally after an abandoned by-id iteration", **_common))
for tag, cfile, fn in (("wav", "wav.c", "wav_get_chunk_data"), ("aiff", "aiff.c", "aiff_get_chunk_data"), ("caf", "caf.c", "caf_get_chunk_data"), ("rf64", "rf64.c", "rf64_get_chunk_data")):
    HARNESSES.append(H("chunk.getdata." + tag, "C13/chunk_data.c", link=["common", "chunk"], stubs=["psf_log_printf", "psf_memset"],
                       defines={"CONTAINER_FILE": '"%s"' % cfile, "GET_DATA_FN": fn, "MF_CAP": 32, "MF_MAXIO": 20, "PSF_MEMSET_MAX": 64, "SNP_MAX": 8},
                       unwind=34, unwindset=["psf_fread.0:21", "psf_memset.0:65"], checks="mem",
                       include_env=("log_stub", "memfile", "memset_model", "snprintf_model"), timeout=300, functions=[fn],
                       bounds="stored chunk length 0..12 (symbolic), caller datalen 0..16 (symbolic), symbolic payload bytes"))

META = {"assumptions": ["snprintf contract model"], "outside": ["payload contents beyond 8 bytes", "container serialisation of the chunks (C13 H4, see DESIGN)"]}
