/* C05 / C07 for the MS ADPCM staging layer (src/ms_adpcm.c): msadpcm_write_{s,i,f,d}
 * and msadpcm_write_block from an ARBITRARY point inside a block (samplecount
 * frames staged, far enough from the block end that the adaptive encoder -
 * checked against its reference in C20 - is not reached). One call with L
 * items taken from an EXACT-SIZE heap block: nothing outside ptr[0, L) is
 * read (CBMC pointer checks), item j is staged at (samplecount * channels +
 * j) converted for the codec's 16-bit domain, samplecount advances by
 * L / channels, L is returned (hence split independence of what is staged).
 * The BUF_UNION staging buffer is 4 shorts (hook), so a request spans
 * several staging chunks.
 */
#include "verif.h"
#include <stdlib.h>
#include <string.h>
#include "ms_adpcm.c"
#include "memfile.h"

#ifndef LM
#define LM 6
#endif
#ifndef CH
#define CH 2
#endif
#define SPB 64		/* samples per block of the state block (the staging arithmetic is uniform in it) */

#if defined (API_s)
#define API_T short
#define API_ND short
#define WRITE_FN msadpcm_write_s
#define W_EXPECT(x)	(x)
#elif defined (API_i)
#define API_T int
#define API_ND int
#define WRITE_FN msadpcm_write_i
#define W_EXPECT(x)	((short) ((x) >> 16))
#elif defined (API_f)
#define API_T float
#define API_ND float
#define WRITE_FN msadpcm_write_f
#define W_EXPECT(x)	((short) lrintf ((nd_norm == SF_TRUE ? (float) (1.0 * 0x7FFF) : (float) 1.0) * (x)))
#elif defined (API_d)
#define API_T double
#define API_ND double
#define WRITE_FN msadpcm_write_d
#define W_EXPECT(x)	((short) lrint ((nd_norm == SF_TRUE ? (1.0 * 0x7FFF) : 1.0) * (x)))
#endif

static SF_PRIVATE g_psf ;
static struct { MSADPCM_PRIVATE p ; } g_store ;
static short g_samples [SPB * CH + 8] ;
static unsigned char g_block [7 * CH + SPB * CH] ;

int
main (void)
{	SF_PRIVATE *psf = &g_psf ;
	MSADPCM_PRIVATE *pms = &g_store.p ;
	int nd_len = nondet_int (), nd_norm = nondet_int (), nd_sc = nondet_int () ;
	API_T *in ;
	API_T nd_in [LM] ;
	sf_count_t ret ;
	int j ;

	{	static const SF_PRIVATE zero_psf ;
		*psf = zero_psf ;
	}
	psf->file.filedes = 0 ; psf->file.mode = SFM_WRITE ;
	psf->sf.channels = CH ;
	VASSUME (nd_norm == SF_TRUE || nd_norm == SF_FALSE) ;
	psf->norm_float = nd_norm ; psf->norm_double = nd_norm ;
	psf->codec_data = pms ;
	pms->channels = CH ; pms->samplesperblock = SPB ; pms->blocksize = 7 * CH + (SPB - 2) * CH / 2 ;
	pms->samples = g_samples ;
	pms->block = g_block ;
#ifdef SC_FIXED
	nd_sc = SC_FIXED ;
#endif
	VASSUME (nd_sc >= 0 && nd_sc + LM / CH + 1 < SPB) ;
	pms->samplecount = nd_sc ;
#ifdef LEN_FIXED
	nd_len = LEN_FIXED ;	/* request length and fill level on the grid: with either symbolic the 'block complete' test does not fold and the
				** adaptive encoder (msadpcm_encode_block) is explored although it cannot be reached (measured: memory limit) */
#endif
	VASSUME (nd_len >= 0 && nd_len <= LM && nd_len % CH == 0) ;
	ND_FILL (nd_in, LM, API_ND) ;
#ifdef CONCRETE_VALUES
	for (j = 0 ; j < LM ; j++) nd_in [j] = (API_T) (nd_norm == SF_TRUE ? 0.125 * (j + 1) - 0.5 : 1000.5 * (j + 1)) ;	/* float/double: position-distinct constants */
#endif
#if defined (API_f) || defined (API_d)
	for (j = 0 ; j < LM ; j++) VASSUME (nd_in [j] == nd_in [j] && nd_in [j] > -40000.0 && nd_in [j] < 40000.0) ;
#endif
	in = malloc (nd_len * sizeof (API_T)) ;		/* exact size: any read past item L - 1 is an error */
	VASSUME (in != NULL) ;
	for (j = 0 ; j < LM ; j++) if (j < nd_len) in [j] = nd_in [j] ;

	ret = WRITE_FN (psf, in, nd_len) ;

	VASSERT (ret == nd_len, "every item offered is accepted") ;
	VASSERT (pms->samplecount == nd_sc + nd_len / CH, "staged frame count advances by the frames written") ;
	for (j = 0 ; j < LM ; j++)
		if (j < nd_len)
			VASSERT (pms->samples [nd_sc * CH + j] == W_EXPECT (nd_in [j]), "item j is staged at frame position samplecount, channel-interleaved, in the codec's 16-bit domain") ;
	WITNESS_END () ;
	return 0 ;
}
