/* C13 H4 (copy bound): X_get_chunk_data of WAV / AIFF / CAF / RF64 copies at
 * most the caller's datalen bytes of a stored chunk: real function over
 * E-memfile, read-chunk table with one entry of symbolic stored length,
 * caller buffer followed by guard cells, symbolic datalen.
 */
#include "verif.h"
#include <stdlib.h>
#include <string.h>
#include "sndfile.c"
#include CONTAINER_FILE
#include "memfile.h"

#define STORED_MAX	12
static SF_PRIVATE g_psf ;
static READ_CHUNK g_tab [1] ;
static SF_CHUNK_ITERATOR g_it ;

int
main (void)
{	SF_PRIVATE *psf = &g_psf ;
	SF_CHUNK_INFO ci ;
	unsigned char buf [STORED_MAX + 6] ;
	unsigned char nd_file [MF_CAP] ;
	uint32_t nd_stored = nondet_uint () ;
	unsigned nd_datalen = nondet_uint () ;
	int rc, k ;

	ND_FILL (nd_file, MF_CAP, uchar) ;
	for (k = 0 ; k < MF_CAP ; k++) { VASSUME (nd_file [k] != 0x55) ; mf [0].data [k] = nd_file [k] ; } ;
	mf [0].len = MF_CAP ; mf [0].len_min = MF_CAP ; mf [0].pos = 3 ;
	VASSUME (nd_stored <= STORED_MAX) ;
	VASSUME (nd_datalen <= STORED_MAX + 4) ;
	psf->file.filedes = 0 ;
	psf->file.mode = SFM_READ ;
	memset (g_tab, 0, sizeof (g_tab)) ;
	g_tab [0].offset = 8 ; g_tab [0].len = nd_stored ; g_tab [0].id_size = 4 ; g_tab [0].hash = 0x64636261 ; g_tab [0].mark32 = 0x64636261 ;
	psf->rchunks.chunks = g_tab ; psf->rchunks.count = 1 ; psf->rchunks.used = 1 ;
	g_it.current = 0 ; g_it.sndfile = (SNDFILE *) psf ;
	memset (&ci, 0, sizeof (ci)) ;
	for (k = 0 ; k < STORED_MAX + 6 ; k++) buf [k] = 0x55 ;
	ci.data = buf ;
	ci.datalen = nd_datalen ;

	rc = GET_DATA_FN (psf, &g_it, &ci) ;

	VASSERT (rc == SFE_NO_ERROR, "stored chunk is found") ;
	for (k = 0 ; k < STORED_MAX + 6 ; k++)
	{	unsigned n = nd_datalen < nd_stored ? nd_datalen : nd_stored ;
		if ((unsigned) k >= nd_datalen)
			VASSERT (buf [k] == 0x55, "get_chunk_data never writes past the caller's datalen") ;
		else if ((unsigned) k < n)
			VASSERT (buf [k] == nd_file [8 + k], "payload bytes are the stored bytes, in order") ;
		} ;
	VASSERT (mf [0].pos == 3, "the file position is restored") ;
	WITNESS_END () ;
	return 0 ;
}
