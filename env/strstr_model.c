/* E-libc: strstr (CBMC 6.11 ships no model). Plain definition, loops bounded by the harness (--unwindset strstr.0 / strstr.1). */
#if defined (__CPROVER__) || defined (VERIF_CBMC)
#include <stddef.h>
char *
strstr (const char *hay, const char *needle)
{	size_t i, j ;
	if (needle [0] == 0)
		return (char *) hay ;
	for (i = 0 ; hay [i] != 0 ; i++)
	{	for (j = 0 ; needle [j] != 0 && hay [i + j] == needle [j] ; j++)
			;
		if (needle [j] == 0)
			return (char *) (hay + i) ;
		if (hay [i + j] == 0)
			return NULL ;
		} ;
	return NULL ;
}
#endif
