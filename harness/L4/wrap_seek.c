/* L4: the real sf_seek (src/sndfile.c) from an arbitrary I_open state with
 * symbolic (offset, whence); codec seek = K-seek contract stub (returns the
 * target, or fails). C06 H1, C08 (which pointer moves), C09 (invalid seeks).
 */
#include "verif.h"
#include <stdlib.h>
#include "sndfile.c"
#include "handle.h"

static SF_PRIVATE g_psf, g_other ;
static int g_seek_calls, g_seek_mode, g_seek_fail ;
static sf_count_t g_seek_pos ;

static sf_count_t
stub_seek (SF_PRIVATE *psf, int mode, sf_count_t pos)
{	g_seek_calls ++ ;
	g_seek_mode = mode ;
	g_seek_pos = pos ;
	VASSERT (psf == &g_psf, "seek called with the caller's handle") ;
	VASSERT (pos >= 0, "K-seek precondition: non-negative target") ;
	VASSERT (mode == SFM_READ || mode == SFM_WRITE || mode == SFM_RDWR, "K-seek precondition: a defined mode") ;
	if (g_seek_fail)
	{	psf->error = SFE_SEEK_FAILED ;
		return PSF_SEEK_ERROR ;
		} ;
	return pos ;
}

int
main (void)
{	SF_PRIVATE *psf = &g_psf ;
	HSNAP before, other_before ;
	sf_count_t nd_off = nondet_i64 () ;
	sf_count_t ret, ref, target = 0, F ;
	int nd_whence = nondet_int () ;
	int nd_fail = nondet_int () ;
	int nd_noseek = nondet_int () ;
	int sel, w, valid_whence, mode, shortcut = 0 ;

	handle_arbitrary (psf, CH, 2) ;
	handle_arbitrary (&g_other, CH, 2) ;
	VASSUME (nd_noseek == 0 || nd_noseek == 1) ;
	psf->seek = nd_noseek ? NULL : stub_seek ;
	VASSUME (nd_fail == 0 || nd_fail == 1) ;
#ifdef KF_seekfail
	VASSUME (nd_fail == 0) ;	/* known finding excluded: see known_findings.txt */
#endif
#ifdef PROBE_seekfail
	VASSUME (nd_fail == 1) ;
#endif
	g_seek_fail = nd_fail ;
	VASSUME (nd_off > -(((sf_count_t) 1) << 40) && nd_off < (((sf_count_t) 1) << 40)) ;

	hsnap_take (psf, &before) ;
	hsnap_take (&g_other, &other_before) ;
	mode = psf->file.mode ;
	F = psf->sf.frames ;

	ret = sf_seek ((SNDFILE *) psf, nd_off, nd_whence) ;

	VASSERT (hsnap_same (&g_other, &other_before) && g_other.error == other_before.error, "a seek on one handle leaves another handle unchanged") ;
	VASSERT (psf->sf.frames == F && psf->file.mode == mode && psf->have_written == before.have_written, "seek never changes frame count, mode or the written flag") ;

	sel = nd_whence & SFM_MASK ;
	w = nd_whence & SFM_UNMASK ;
	valid_whence = (w == SEEK_SET || w == SEEK_CUR || w == SEEK_END) && (sel == 0 || sel == SFM_READ || sel == SFM_WRITE || (sel == SFM_RDWR && w == SEEK_SET)) ;

	if (! before.seekable)
	{	VASSERT (ret == -1 && psf->error != 0 && hsnap_same (psf, &before), "non-seekable handle: -1, error set, nothing changes") ;
		}
	else if ((sel == SFM_WRITE && mode == SFM_READ) || (sel == SFM_READ && mode == SFM_WRITE))
	{	VASSERT (ret == -1 && psf->error != 0 && hsnap_same (psf, &before), "seeking the pointer the mode does not have: -1, error set, nothing changes") ;
		}
	else if (! valid_whence)
	{	VASSERT (ret == -1 && psf->error != 0 && hsnap_same (psf, &before), "unknown whence: -1, error set, nothing changes") ;
		}
	else
	{	/* reference pointer for SEEK_CUR */
		if (sel == SFM_READ) ref = before.read_current ;
		else if (sel == SFM_WRITE) ref = before.write_current ;
		else ref = (mode == SFM_READ) ? before.read_current : before.write_current ;
		if (w == SEEK_SET) target = nd_off ;
		else if (w == SEEK_CUR) target = ref + nd_off ;
		else target = F + nd_off ;
		shortcut = (w == SEEK_CUR && nd_off == 0 && (sel != 0 || mode != SFM_RDWR)) ;

		if (shortcut)
		{	VASSERT (ret == ref, "zero-offset SEEK_CUR reports the index of the next frame") ;
			VASSERT (hsnap_same (psf, &before) && psf->error == 0 && g_seek_calls == 0, "zero-offset SEEK_CUR is a pure query") ;
			}
		else if (target < 0 || (mode == SFM_READ && target > F))
		{	VASSERT (ret == -1 && psf->error != 0 && hsnap_same (psf, &before), "out-of-range target: -1, error set, positions unchanged") ;
			VASSERT (g_seek_calls == 0, "out-of-range target never reaches the codec") ;
			}
		else if (nd_noseek)
		{	VASSERT (ret == -1 && psf->error != 0 && hsnap_same (psf, &before), "format without seek support: -1, error set, nothing changes") ;
			}
		else
		{	int new_mode = sel ? sel : mode ;
			VASSERT (g_seek_calls == 1 && g_seek_pos == target && g_seek_mode == new_mode, "the codec is asked for exactly the requested frame and pointer") ;
			if (g_seek_fail)
			{	VASSERT (ret == -1 && psf->error != 0, "failed codec seek: -1 with an error set") ;
				VASSERT (psf->read_current >= 0 && psf->write_current >= 0, "failed codec seek leaves valid (non-negative) positions") ;
				}
			else
			{	VASSERT (ret == target, "successful seek returns the requested absolute position") ;
				VASSERT (psf->error == 0, "successful seek leaves no error") ;
				if (new_mode == SFM_READ)
					VASSERT (psf->read_current == target && psf->write_current == before.write_current, "SFM_READ (or read mode) moves only the read pointer") ;
				else if (new_mode == SFM_WRITE)
					VASSERT (psf->write_current == target && psf->read_current == before.read_current, "SFM_WRITE (or write mode) moves only the write pointer") ;
				else
					VASSERT (psf->read_current == target && psf->write_current == target, "plain whence in RDWR mode moves both pointers") ;
				VASSERT (psf->last_op == (new_mode == SFM_RDWR ? SFM_READ : new_mode), "last_op records which pointer the file position now belongs to") ;
				} ;
			} ;
		} ;
	WITNESS_END () ;
	return 0 ;
}
